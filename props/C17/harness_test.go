// C17 correspondence harness (injected into package dot/state by `go test -overlay`).
// A real BlockState on an in-memory database, built from a genesis header for every case.
//
// input (fields separated by one space, all numbers hex):
//   t <nblk> <blk_1> ... <blk_nblk> <op> ...
//   blk_i := <parent>.<number>.<kind>.<arrival>.<sroot>
//            parent: index (0 = genesis, j < i = block j, else a hash nobody has); number:
//            header.Number; kind: 0 BABE primary, 1 secondary plain, 2 secondary VRF, 3 no digest;
//            arrival in nanoseconds; sroot: state root id (blocks may share one; genesis has id 0).
//            Hashes are the real Header.Hash().
//   op := a<i>                   AddBlockWithArrivalTime(block_i) and, if accepted, a trie stored
//                                in Tries for its state root (softSet)
//       | f<i>.<round>.<setid>   SetFinalisedHash(hash_i, round, setid)   (i > nblk: unknown hash)
//       | s                      observation only
// observed:
//   H:<hash_0>,...,<hash_nblk> then one token per op:
//   a -> A:<ok|e1..e4>              (classes of the C15 harness)
//   f -> F:<ok|err>|<obs before the call>|<obs after>     s -> S:<obs>
//   obs := <GetHighestFinalisedHash as block index|err>;<n=GetHashByNumber(n) or n=! on error,... for n in 0..nblk+1>;
//          <per block 0..nblk two hex digits: 40 GetBlockByHash ok, 20 GetBlockBody ok (and
//           HasBlockBody), 10 header in the database (HasHeaderInDatabase), 8 HasHeader, 4 GetHeader ok, 2 in unfinalisedBlocks, 1 Tries.get(state root) != nil>;
//          <Tries.len>;<BestBlockHash>;
//          <n=the database's own number index db.Get(headerHashKey(n)) as block index, or n=- when
//           absent,... for n in 0..nblk+1>;
//          <n=hash of the block GetBlockByNumber(n) answers as block index, or n=! on error,...>
package state

import (
	"encoding/json"
	"errors"
	"fmt"
	"strings"
	"testing"
	"time"

	"github.com/ChainSafe/gossamer/dot/types"
	"github.com/ChainSafe/gossamer/internal/database"
	"github.com/ChainSafe/gossamer/lib/blocktree"
	"github.com/ChainSafe/gossamer/lib/common"
	"github.com/ChainSafe/gossamer/lib/crypto/sr25519"
	inmemory_trie "github.com/ChainSafe/gossamer/pkg/trie/inmemory"

	vu "github.com/ChainSafe/gossamer/internal/verifutil"
)

type c17Telemetry struct{}

func (c17Telemetry) SendMessage(json.Marshaler) {}

type c17blk struct {
	parent  int
	number  uint64
	kind    int
	arrival int64
	sroot   int
	header  *types.Header
}

func c17Root(id int) common.Hash { return common.Hash{0x57, byte(id), byte(id >> 8), 0x17} }
func c17Unknown(i int) common.Hash {
	return common.Hash{0xee, byte(i), byte(i >> 8), 0xee}
}

func c17Digest(kind int, idx int) types.Digest {
	digest := types.NewDigest()
	var pre *types.PreRuntimeDigest
	var err error
	switch kind {
	case 0:
		pre, err = types.NewBabePrimaryPreDigest(uint32(idx), uint64(idx)+1,
			[sr25519.VRFOutputLength]byte{}, [sr25519.VRFProofLength]byte{}).ToPreRuntimeDigest()
	case 1:
		pre, err = types.NewBabeSecondaryPlainPreDigest(uint32(idx), uint64(idx)+1).ToPreRuntimeDigest()
	case 2:
		pre, err = types.NewBabeSecondaryVRFPreDigest(uint32(idx), uint64(idx)+1,
			[sr25519.VRFOutputLength]byte{}, [sr25519.VRFProofLength]byte{}).ToPreRuntimeDigest()
	default:
		return digest
	}
	if err != nil {
		panic(err)
	}
	if e := digest.Add(*pre); e != nil {
		panic(e)
	}
	return digest
}

func c17AddClass(err error) string {
	switch {
	case err == nil:
		return "ok"
	case errors.Is(err, blocktree.ErrParentNotFound):
		return "e1"
	case errors.Is(err, blocktree.ErrBlockExists):
		return "e2"
	case strings.Contains(err.Error(), "block number is not parent number + 1"):
		return "e3"
	}
	return "e4"
}

func c17Run(in string) string {
	f := strings.Fields(in)
	if len(f) < 2 || f[0] != "t" {
		panic("c17: bad input " + in)
	}
	n := int(vu.UnX(f[1]))
	ids := map[common.Hash]int{}
	genesis := &types.Header{Number: 0, StateRoot: c17Root(0), Digest: types.NewDigest()}
	blks := []c17blk{{header: genesis}}
	ids[genesis.Hash()] = 0
	for i := 1; i <= n; i++ {
		p := strings.Split(f[1+i], ".")
		if len(p) != 5 {
			panic("c17: bad block " + f[1+i])
		}
		b := c17blk{parent: int(vu.UnX(p[0])), number: vu.UnX(p[1]), kind: int(vu.UnX(p[2])),
			arrival: vu.UnXI(p[3]), sroot: int(vu.UnX(p[4]))}
		var ph common.Hash
		if b.parent >= 0 && b.parent < i {
			ph = blks[b.parent].header.Hash()
		} else {
			ph = c17Unknown(b.parent)
		}
		b.header = &types.Header{
			ParentHash:     ph,
			Number:         uint(b.number),
			StateRoot:      c17Root(b.sroot),
			ExtrinsicsRoot: common.Hash{byte(i), byte(i >> 8), 0x17},
			Digest:         c17Digest(b.kind, i),
		}
		blks = append(blks, b)
		ids[b.header.Hash()] = i
	}
	ops := f[2+n:]

	db, err := database.LoadDatabase("", true)
	if err != nil {
		panic(err)
	}
	defer db.Close()
	bs, err := NewBlockStateFromGenesis(db, NewTries(), genesis, c17Telemetry{})
	if err != nil {
		panic(err)
	}
	bs.tries.softSet(genesis.StateRoot, inmemory_trie.NewEmptyTrie())

	hash := func(i int) common.Hash {
		if i >= 0 && i < len(blks) {
			return blks[i].header.Hash()
		}
		return c17Unknown(i)
	}
	id := func(h common.Hash) string {
		if i, ok := ids[h]; ok {
			return vu.X(uint64(i))
		}
		return "?"
	}
	observe := func() string {
		var hi string
		if h, err := bs.GetHighestFinalisedHash(); err != nil {
			hi = "err"
		} else {
			hi = id(h)
		}
		var byn []string
		for k := 0; k <= n+1; k++ {
			h, err := bs.GetHashByNumber(uint(k))
			if err != nil {
				byn = append(byn, vu.X(uint64(k))+"=!")
			} else {
				byn = append(byn, vu.X(uint64(k))+"="+id(h))
			}
		}
		var fl strings.Builder
		for i := range blks {
			h := blks[i].header.Hash()
			v := 0
			if has, err := bs.HasHeader(h); err == nil && has {
				v |= 8
			}
			if hd, err := bs.GetHeader(h); err == nil && hd != nil {
				v |= 4
			}
			if bs.unfinalisedBlocks.getBlock(h) != nil {
				v |= 2
			}
			if bs.tries.get(blks[i].header.StateRoot) != nil {
				v |= 1
			}
			if has, err := bs.HasHeaderInDatabase(h); err == nil && has {
				v |= 16
			}
			if body, err := bs.GetBlockBody(h); err == nil && body != nil {
				if has, err := bs.HasBlockBody(h); err == nil && has {
					v |= 32
				}
			}
			if blk, err := bs.GetBlockByHash(h); err == nil && blk != nil && blk.Header.Hash() == h {
				v |= 64
			}
			fmt.Fprintf(&fl, "%02x", v)
		}
		var dbn []string
		for k := 0; k <= n+1; k++ {
			bh, err := bs.db.Get(headerHashKey(uint64(k)))
			if err != nil {
				dbn = append(dbn, vu.X(uint64(k))+"=-")
			} else {
				dbn = append(dbn, vu.X(uint64(k))+"="+id(common.NewHash(bh)))
			}
		}
		var bkn []string
		for k := 0; k <= n+1; k++ {
			blk, err := bs.GetBlockByNumber(uint(k))
			if err != nil || blk == nil {
				bkn = append(bkn, vu.X(uint64(k))+"=!")
			} else {
				bkn = append(bkn, vu.X(uint64(k))+"="+id(blk.Header.Hash()))
			}
		}
		return fmt.Sprintf("%s;%s;%s;%s;%s;%s;%s", hi, strings.Join(byn, ","), fl.String(),
			vu.X(uint64(bs.tries.len())), id(bs.BestBlockHash()), strings.Join(dbn, ","), strings.Join(bkn, ","))
	}

	hs := make([]string, len(blks))
	for i := range blks {
		h := blks[i].header.Hash()
		hs[i] = vu.Hex(h[:])
	}
	out := []string{"H:" + strings.Join(hs, ",")}
	for _, op := range ops {
		switch op[0] {
		case 'a':
			i := int(vu.UnX(op[1:]))
			b := blks[i]
			err := bs.AddBlockWithArrivalTime(&types.Block{Header: *b.header, Body: types.Body{}}, time.Unix(0, b.arrival))
			if err == nil {
				bs.tries.softSet(b.header.StateRoot, inmemory_trie.NewEmptyTrie())
			}
			out = append(out, "A:"+c17AddClass(err))
		case 'f':
			p := strings.Split(op[1:], ".")
			i := int(vu.UnX(p[0]))
			before := observe()
			err := bs.SetFinalisedHash(hash(i), vu.UnX(p[1]), vu.UnX(p[2]))
			res := "ok"
			if err != nil {
				res = "err"
			}
			out = append(out, "F:"+res+"|"+before+"|"+observe())
		case 's':
			out = append(out, "S:"+observe())
		default:
			panic("c17: bad op " + op)
		}
	}
	return strings.Join(out, " ")
}

// ---------------------------------------------------------------- generators

type c17gen struct {
	par   []int
	num   []uint64
	kind  []int
	arr   []int64
	sroot []int
}

func (g *c17gen) blocks() string {
	var sb strings.Builder
	fmt.Fprintf(&sb, "t %s", vu.X(uint64(len(g.par)-1)))
	for i := 1; i < len(g.par); i++ {
		fmt.Fprintf(&sb, " %s.%s.%s.%s.%s", vu.X(uint64(g.par[i])), vu.X(g.num[i]), vu.X(uint64(g.kind[i])),
			vu.XI(g.arr[i]), vu.X(uint64(g.sroot[i])))
	}
	return sb.String()
}

func c17NewGen(r *vu.RNG, par []int, shareRoots bool) *c17gen {
	n := len(par)
	g := &c17gen{par: par, num: make([]uint64, n), kind: make([]int, n), arr: make([]int64, n), sroot: make([]int, n)}
	for i := 1; i < n; i++ {
		if par[i] >= 0 && par[i] < i {
			g.num[i] = g.num[par[i]] + 1
		} else {
			g.num[i] = 1
		}
		g.kind[i] = r.Intn(3)
		g.arr[i] = int64(r.Intn(4))
		g.sroot[i] = i
		if shareRoots && r.Chance(1, 4) {
			g.sroot[i] = r.Intn(i + 1)
		}
	}
	return g
}

func c17ParentVectors(n int, f func(par []int)) {
	par := make([]int, n+1)
	var rec func(i int)
	rec = func(i int) {
		if i > n {
			f(append([]int(nil), par...))
			return
		}
		for p := 0; p < i; p++ {
			par[i] = p
			rec(i + 1)
		}
	}
	rec(1)
}

func c17Adds(n int) []string {
	var ops []string
	for i := 1; i <= n; i++ {
		ops = append(ops, "a"+vu.X(uint64(i)))
	}
	return ops
}

// every tree with at most maxBlocks blocks, every first target (held, unknown), then every
// second target (stale, sibling/abandoned, descendant, unknown)
func c17Exhaustive(r *vu.RNG, maxBlocks int, emit func(string)) {
	for n := 1; n <= maxBlocks; n++ {
		c17ParentVectors(n, func(par []int) {
			g := c17NewGen(r, par, false)
			base := g.blocks() + " " + strings.Join(c17Adds(n), " ") + " s"
			for f1 := 0; f1 <= n+1; f1++ {
				ops := base + fmt.Sprintf(" f%s.1.0", vu.X(uint64(f1)))
				for f2 := 0; f2 <= n+1; f2++ {
					// ... and a last request for genesis (stale once the head has moved) that
					// re-uses the round and set id of the previous request
					emit(ops + fmt.Sprintf(" f%s.2.0 f0.2.0", vu.X(uint64(f2))))
				}
			}
			// set ids: the first request opens set 1, the second one comes with the stale set 0
			// (refused whatever its target), then again with set 1, then with a lower round
			for f1 := 0; f1 <= n; f1++ {
				for f2 := 0; f2 <= n+1; f2++ {
					emit(base + fmt.Sprintf(" f%s.5.1 f%s.6.0 s f%s.7.1 f%s.2.1", vu.X(uint64(f1)),
						vu.X(uint64(f2)), vu.X(uint64(f2)), vu.X(uint64(f2))))
				}
			}
		})
	}
}

func c17Random(r *vu.RNG, emit func(string)) {
	n := r.Range(3, 8)
	if r.Chance(1, 6) {
		n = r.Range(9, 20)
	}
	par := make([]int, n+1)
	mode := r.Intn(3)
	for i := 1; i <= n; i++ {
		switch mode {
		case 0:
			par[i] = r.Intn(i)
		case 1: // wide fan-out: many siblings
			par[i] = r.Intn(1 + i/4)
		default:
			if r.Chance(2, 3) {
				par[i] = i - 1
			} else {
				par[i] = r.Intn(i)
			}
		}
	}
	g := c17NewGen(r, par, r.Chance(1, 3))
	for i := 1; i <= n; i++ {
		if r.Chance(1, 30) {
			switch r.Intn(3) {
			case 0:
				g.kind[i] = 3
			case 1:
				g.num[i]++
			default:
				g.par[i] = n + 5
			}
		}
	}
	lowSetID := r.Chance(1, 4)
	freeRounds := r.Chance(1, 3) // rounds need not increase (gossamer issue 3150)
	var ops []string
	round, setid := uint64(1), uint64(0)
	nfin := 0
	for i := 1; i <= n; i++ {
		ops = append(ops, "a"+vu.X(uint64(i)))
		if r.Chance(1, 12) {
			ops = append(ops, "a"+vu.X(uint64(r.Range(1, i)))) // duplicate
		}
		if (i >= 2 && r.Chance(1, 3)) || i == n {
			k := 1 + r.Intn(3)
			for ; k > 0; k-- {
				var target int
				switch r.Intn(7) {
				case 0:
					target = n + 2 // unknown
				case 1:
					target = 0 // genesis: the head itself or stale
				default:
					target = r.Range(1, i)
				}
				if r.Chance(1, 4) {
					setid++
				}
				sid := setid
				if lowSetID && setid > 0 && r.Chance(1, 3) {
					sid = setid - 1
				}
				rd := round
				if freeRounds {
					rd = uint64(r.Intn(4))
				}
				ops = append(ops, fmt.Sprintf("f%s.%s.%s", vu.X(uint64(target)), vu.X(rd), vu.X(sid)))
				round++
				nfin++
			}
		}
	}
	emit(g.blocks() + " " + strings.Join(ops, " "))
}

func c17Gen(r *vu.RNG, n int, emit func(string)) {
	// four children of genesis, the last one finalised: the pruning defect leaves block 2 behind
	emit("t 4 0.1.0.0.1 0.1.0.0.2 0.1.0.0.3 0.1.0.0.4 a1 a2 a3 a4 s f4.1.0 f2.2.0")
	// stale, sibling, unknown, repeated targets
	emit("t 5 0.1.0.0.1 1.2.0.0.2 1.2.1.0.3 2.3.0.0.4 3.3.0.0.5 a1 a2 a3 a4 a5 f2.1.0 f1.2.0 f3.3.0 f9.4.0 f2.5.0 f4.6.0 f0.7.0")
	// a stale set id for a held target: refused, and nothing may have been written; the same
	// target is accepted afterwards with the current set id (pinned code: refused for ever)
	emit("t 2 0.1.0.0.1 1.2.0.0.2 a1 a2 f1.1.1 f2.2.0 s f2.3.1 s")
	emit("t 4 0.1.0.0.1 1.2.0.0.2 2.3.1.0.3 1.2.0.0.4 a1 a2 a3 a4 f1.1.2 f3.2.1 f3.2.0 s f2.1.2 f3.0.2 f4.9.9")
	// a refused request (stale target) that re-uses the (round, set id) of the current head must
	// not move GetHighestFinalisedHash
	emit("t 2 0.1.0.0.1 1.2.0.0.2 a1 a2 f2.3.0 f1.3.0 s f0.3.0 s")
	// shared state roots between an abandoned and a kept block
	emit("t 3 0.1.0.0.1 0.1.0.0.1 1.2.0.0.2 a1 a2 a3 f1.1.0 s")
	max := 3
	if vu.Thorough() {
		max = 5
	}
	c17Exhaustive(r.Fork(), max, emit)
	rr := r.Fork()
	for i := 0; i < n; i++ {
		c17Random(rr, emit)
	}
}

func TestVerifC17(t *testing.T) {
	vu.Run(t, "C17", 400, c17Gen, c17Run)
}
