(* C29 driver: replays the Go trace on the extracted references.
   hash cases: the model of each helper is the reference digest, so prop_ok = model_eq =
   "every digest the Go helper returned equals the reference digest". *)
open Model
open Vutil

let digest_names = ["blake2b128"; "blake2b256"; "blake2b8"; "twox64"; "twox128"; "twox256"; "keccak256"; "sha256"]

let len_bucket n =
  if n = 0 then "len-0" else if n < 32 then "len-1..31" else if n < 64 then "len-32..63"
  else if n < 128 then "len-64..127" else if n <= 137 then "len-128..137"
  else if n <= 256 then "len-138..256" else "len->256"

let check inp obs =
  match split_ws inp with
  | ["hash"; hx] ->
    let m = bytes_of_hex hx in
    let model = List.map hex_of_bytes (all_digests m) in
    let o = split_ws obs in
    if List.length o <> 8 then
      { prop_ok = false; model_eq = false; nontrivial = false; finding = "-"; tags = "hash-shape";
        detail = "expected 8 digests, observed: " ^ obs }
    else begin
      let bad = List.filter_map (fun (nm, (a, b)) -> if a = b then None else Some (nm ^ ":ref=" ^ a ^ ",go=" ^ b))
          (List.combine digest_names (List.combine model o)) in
      let n = String.length hx / 2 in
      let n = if hx = "-" then 0 else n in
      let okk = (bad = []) in
      { prop_ok = okk; model_eq = okk; nontrivial = true; finding = "-";
        tags = "hash," ^ len_bucket n ^ (if n mod 136 = 135 then ",keccak-pad-81" else "")
               ^ (if n mod 128 = 0 && n > 0 then ",blake-full-last-block" else "")
               ^ (if n mod 64 >= 56 then ",sha-pad-extra-block" else "");
        detail = String.concat ";" bad }
    end
  | _ -> fail "C29: bad input %s" inp

let () = run_driver check
