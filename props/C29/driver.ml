(* C29 driver: replays the Go trace on the extracted references.

   hash cases       the model of each helper is the reference digest: prop_ok = model_eq =
                    "every digest the Go helper returned equals the reference digest".
   ed cases         model_eq: gossamer's verdict (ok/fail/err) equals the model of
                    VerifySignature over Go's crypto/ed25519 rules; prop_ok: the verdict accepts
                    exactly when the ZIP-215 reference accepts; a disagreement inside
                    [zip215_guard] (non-canonical R, or torsion in A or R) is the known finding
                    ed25519-not-zip215.
   secp cases       the model is libsecp256k1's rule set behind gossamer's wrappers, which is
                    also the reference: prop_ok = model_eq.
   host cases       hhash like hash; hed like ed; hecdsa: model_eq against the model of
                    ext_crypto_ecdsa_verify_version_2 (64 signature bytes, low-S ECDSA verify),
                    prop_ok against Substrate's verdict (recover from the 65 bytes and compare);
                    disagreements inside [host_ecdsa_guard] are the known finding
                    ecdsa-verify-drops-recovery-id;
                    hrec/hrecc: the key inside Result::Ok of version 1 and of version 2, and whether
                    the call rewrote the signature in guest memory (model_eq only); prop_ok against
                    Substrate's version 2 (strict) and version 1 (r, s reduced modulo n): a
                    disagreement of version 1 with r or s >= n is the known finding
                    ecdsa-recover-v1-strict.
   sr cases         sr / srdep / hsr1 / hsr2: the model is the repaired gossamer code
                    (fixes/C29-sr25519-*.patch), whose accepting verdict equals Substrate's
                    verify / verify_deprecated for every input (theorem C29_sr25519_agrees), so
                    the reference verdict is read off the model's: prop_ok = "accepted iff the
                    reference accepts", model_eq = same verdict class (ok / fail / err).
   A finding slug is attached only to a failing case on which the implementation behaves as the
   model of the known-defective code predicts (model_eq): any other failure is a violation.

   The signature references cost about a second per case (256-bit arithmetic on Coq's binary
   integers), so the cases are distributed over worker processes (this executable re-invoked
   with --worker through the shell; stdlib only). *)
open Model
open Vutil

let digest_names = ["blake2b128"; "blake2b256"; "blake2b8"; "twox64"; "twox128"; "twox256"; "keccak256"; "sha256"]

let len_bucket n =
  if n = 0 then "len-0" else if n < 32 then "len-1..31" else if n < 64 then "len-32..63"
  else if n < 128 then "len-64..127" else if n <= 137 then "len-128..137"
  else if n <= 256 then "len-138..256" else "len->256"

let hexlen hx = if hx = "-" then 0 else String.length hx / 2

let simple ~tags ~model ~obs =
  let e = (model = obs) in
  { prop_ok = e; model_eq = e; nontrivial = true; finding = "-"; tags;
    detail = if e then "" else "reference=" ^ model }

let rec_string = function RKey k -> hex_of_bytes k | RErr -> "err" | RPanic -> "panic"

let check inp obs =
  match split_ws inp with
  | ["hash"; hx] | ["hhash"; hx] ->
    let kind = List.hd (split_ws inp) in
    let m = bytes_of_hex hx in
    let model = List.map hex_of_bytes (all_digests m) in
    let model = if kind = "hhash" then List.filter (fun x -> x <> "") (List.mapi (fun i x -> if i = 2 then "" else x) model) else model in
    let names = if kind = "hhash" then List.filter (fun x -> x <> "blake2b8") digest_names else digest_names in
    let o = split_ws obs in
    if List.length o <> List.length model then
      { prop_ok = false; model_eq = false; nontrivial = false; finding = "-"; tags = kind ^ "-shape";
        detail = "unexpected observation: " ^ obs }
    else begin
      let bad = List.filter_map (fun (nm, (a, b)) -> if a = b then None else Some (nm ^ ":ref=" ^ a ^ ",go=" ^ b))
          (List.combine names (List.combine model o)) in
      let n = hexlen hx in
      let okk = (bad = []) in
      { prop_ok = okk; model_eq = okk; nontrivial = true; finding = "-";
        tags = kind ^ "," ^ kind ^ "-" ^ len_bucket n ^ (if n mod 136 = 135 then ",keccak-pad-81" else "")
               ^ (if n mod 128 = 0 && n > 0 then ",blake-full-last-block" else "")
               ^ (if n mod 64 >= 56 then ",sha-pad-extra-block" else "");
        detail = String.concat ";" bad }
    end
  | ["ed"; pkh; msgh; sigh] ->
    let pk = bytes_of_hex pkh and msg = bytes_of_hex msgh and sg = bytes_of_hex sigh in
    let (g, z) = ed25519_case pk sg msg in
    let model = (match g with VOk -> "ok" | VFail -> "fail" | VErr -> "err") in
    let accepted = (obs = "ok") in
    let prop = (accepted = z) in
    let finding = if (not prop) && model = obs && zip215_guard pk sg then "ed25519-not-zip215" else "-" in
    let shape = if hexlen pkh <> 32 || hexlen sigh <> 64 then "ed-bad-length" else "ed-length-ok" in
    { prop_ok = prop; model_eq = (model = obs); nontrivial = true; finding;
      tags = "ed," ^ shape ^ ",ed-go-" ^ model ^ (if z then ",ed-zip215-accept" else ",ed-zip215-reject")
             ^ (if (g = VOk) <> z then ",ed-go-differs-from-zip215" else "");
      detail = if prop && model = obs then "" else
          Printf.sprintf "gossamer=%s model-of-go=%s zip215=%s" obs model (if z then "accept" else "reject") }
  | ["sverify"; pkh; msgh; sigh] ->
    let m = if secp256k1_verify_signature (bytes_of_hex pkh) (bytes_of_hex sigh) (bytes_of_hex msgh) then "ok" else "fail" in
    simple ~tags:("secp,sverify-" ^ m ^ ",sverify-pklen-" ^ string_of_int (hexlen pkh)) ~model:m ~obs
  | ["spkverify"; pkh; msgh; sigh] ->
    let m = (match secp256k1_pubkey_verify (bytes_of_hex pkh) (bytes_of_hex msgh) (bytes_of_hex sigh) with
        | PKBadKey -> "badkey" | PKErr -> "err" | PKFail -> "fail" | PKOk -> "ok") in
    simple ~tags:("secp,spkverify-" ^ m) ~model:m ~obs
  | ["srecover"; msgh; sigh] ->
    let r = recover_public_key (bytes_of_hex msgh) (bytes_of_hex sigh) in
    let m = rec_string r in
    let v = simple ~tags:("secp,srecover-" ^ (match r with RKey _ -> "key" | _ -> m) ^
                          (if hexlen sigh <> 65 then ",srecover-bad-length" else "")) ~model:m ~obs in
    if (not v.prop_ok) && obs = "panic" && hexlen sigh < 65 then
      { v with detail = "RecoverPublicKey panics on a signature shorter than 65 bytes; " ^ v.detail } else v
  | ["srecoverc"; msgh; sigh] ->
    let r = recover_public_key_compressed (bytes_of_hex msgh) (bytes_of_hex sigh) in
    let m = rec_string r in
    let v = simple ~tags:("secp,srecoverc-" ^ (match r with RKey _ -> "key" | _ -> m) ^
                          (if hexlen sigh <> 65 then ",srecover-bad-length" else "")) ~model:m ~obs in
    if (not v.prop_ok) && obs = "panic" && hexlen sigh < 65 then
      { v with detail = "RecoverPublicKeyCompressed panics on a signature shorter than 65 bytes; " ^ v.detail } else v
  | ["hed"; pkh; msgh; sigh] ->
    let pk = bytes_of_hex pkh and msg = bytes_of_hex msgh and sg = bytes_of_hex sigh in
    let (g, z) = host_ed25519_case pk msg sg in
    let model = if g then "1" else "0" in
    let prop = ((obs = "1") = z) in
    let finding = if (not prop) && model = obs && zip215_guard pk sg then "ed25519-not-zip215" else "-" in
    { prop_ok = prop; model_eq = (model = obs); nontrivial = true; finding;
      tags = "host,hed-" ^ model ^ (if z then ",hed-zip215-accept" else ",hed-zip215-reject");
      detail = if prop && model = obs then "" else
          Printf.sprintf "host=%s model-of-go=%s zip215=%s" obs model (if z then "accept" else "reject") }
  | ["hecdsa"; pkh; msgh; sigh] ->
    let pk = bytes_of_hex pkh and msg = bytes_of_hex msgh and sg = bytes_of_hex sigh in
    let g = host_ecdsa_verify pk msg sg in
    let z = substrate_ecdsa_verify pk msg sg in
    let model = if g then "1" else "0" in
    let prop = ((obs = "1") = z) in
    let finding = if (not prop) && model = obs && host_ecdsa_guard pk msg sg then "ecdsa-verify-drops-recovery-id" else "-" in
    { prop_ok = prop; model_eq = (model = obs); nontrivial = true; finding;
      tags = "host,hecdsa-" ^ model ^ (if z then ",hecdsa-substrate-accept" else ",hecdsa-substrate-reject")
             ^ (if g <> z then ",hecdsa-differs-from-substrate" else "");
      detail = if prop && model = obs then "" else
          Printf.sprintf "host=%s model-of-go=%s substrate=%s" obs model (if z then "accept" else "reject") }
  | [("hrec" | "hrecc") as kind; msgh; sigh] ->
    let msg = bytes_of_hex msgh and sg = bytes_of_hex sigh in
    let compressed = (kind = "hrecc") in
    let key q = hex_of_bytes (if compressed then serialize_compressed q else key_xy q) in
    let str = function Some q -> key q | None -> "err" in
    let m = str (substrate_recover_v2 msg sg) in          (* = gossamer's model, both versions *)
    let guard = host_recover_v1_guard sg in
    let ref1 = if guard then str (substrate_recover_v1 msg sg) else m in
    let mut_m = host_recover_mutates sg in
    let model = m ^ " " ^ m ^ (if mut_m then " mut" else "") in
    (match split_ws obs with
     | o1 :: o2 :: rest ->
       let prop = (o1 = ref1) && (o2 = m) in
       let eq = (obs = model) in
       { prop_ok = prop; model_eq = eq; nontrivial = true;
         finding = if (not prop) && eq && guard && o2 = m then "ecdsa-recover-v1-strict" else "-";
         tags = "host," ^ kind ^ "-" ^ (if m = "err" then "err" else "key")
                ^ (if guard then ",hrec-rs-overflow,hrec-v1-ref-" ^ (if ref1 = "err" then "err" else "key") else "")
                ^ (if rest = ["mut"] then ",hrec-rewrites-guest-memory" else "");
         detail = if prop && eq then "" else
             Printf.sprintf "host=%s model-of-go=%s substrate-v1=%s substrate-v2=%s" obs model ref1 m }
     | _ -> { prop_ok = false; model_eq = false; nontrivial = false; finding = "-"; tags = "host," ^ kind ^ "-shape";
              detail = "unexpected observation: " ^ obs })
  | [("sr" | "srdep") as kind; pkh; msgh; sigh] ->
    let pk = bytes_of_hex pkh and msg = bytes_of_hex msgh and sg = bytes_of_hex sigh in
    let g = if kind = "sr" then sr25519_verify_signature pk sg msg else sr25519_verify_deprecated pk sg msg in
    let model = (match g with VOk -> "ok" | VFail -> "fail" | VErr -> "err") in
    let z = accepts g in
    let prop = ((obs = "ok") = z) in
    let marked = hexlen sigh = 64 && sr_marked sg in
    { prop_ok = prop; model_eq = (model = obs); nontrivial = true; finding = "-";
      tags = "sr," ^ kind ^ "-" ^ model ^ (if marked then "," ^ kind ^ "-marked" else "," ^ kind ^ "-unmarked")
             ^ (if hexlen pkh <> 32 || hexlen sigh <> 64 then ",sr-bad-length" else "")
             ^ (if pkh = String.make 64 '0' then ",sr-identity-key" else "");
      detail = if prop && model = obs then "" else
          Printf.sprintf "gossamer=%s repaired-model=%s substrate=%s" obs model (if z then "accept" else "reject") }
  | [("hsr1" | "hsr2") as kind; pkh; msgh; sigh] ->
    let pk = bytes_of_hex pkh and msg = bytes_of_hex msgh and sg = bytes_of_hex sigh in
    let z = if kind = "hsr1" then host_sr25519_verify_v1 pk msg sg else host_sr25519_verify_v2 pk msg sg in
    let model = if z then "1" else "0" in
    let e = (model = obs) in
    { prop_ok = e; model_eq = e; nontrivial = true; finding = "-";
      tags = "host," ^ kind ^ "-" ^ model ^ (if sr_marked sg then "," ^ kind ^ "-marked" else "," ^ kind ^ "-unmarked")
             ^ (if pkh = String.make 64 '0' then "," ^ kind ^ "-identity-key" else "");
      detail = if e then "" else Printf.sprintf "host=%s substrate=%s" obs model }
  | _ -> fail "C29: bad input %s" inp

(* ---- parallel front end *)
let read_lines ic =
  let l = ref [] in
  (try while true do l := input_line ic :: !l done with End_of_file -> ());
  List.rev !l

let cost line =
  match String.split_on_char '\t' line with
  | [_; inp; _] -> if String.length inp > 6 && (inp.[0] = 'e' || inp.[0] = 's' || (inp.[0] = 'h' && inp.[1] <> 'h' && String.sub inp 0 5 <> "hash ")) then 60 else 1
  | _ -> 1

(* vm_compute cross-check of the extraction: a hash case as a Gallina boolean that recomputes the
   eight reference digests inside Coq and compares them with what the Go helpers returned *)
let coq inp obs =
  match split_ws inp with
  | ["hash"; hx] ->
    let o = split_ws obs in
    if List.length o <> 8 || List.mem "err" o then None else
    Some (Printf.sprintf "forallb (fun p => bytes_eqb (fst p) (snd p)) (combine (all_digests %s) [%s])"
            (coq_bytes (bytes_of_hex hx)) (String.concat "; " (List.map (fun d -> coq_bytes (bytes_of_hex d)) o)))
  | _ -> None

let () =
  if Array.length Sys.argv > 1 && (Sys.argv.(1) = "--worker" || Sys.argv.(1) = "--coq") then run_driver ~coq check
  else begin
    let lines = List.filter (fun l -> l <> "") (read_lines stdin) in
    let total = List.fold_left (fun a l -> a + cost l) 0 lines in
    (* default: one worker per processor listed in /proc/cpuinfo, at least 4, at most 16 *)
    let ncpu = (try
        let ic = open_in "/proc/cpuinfo" in
        let n = List.length (List.filter (fun l -> String.length l >= 9 && String.sub l 0 9 = "processor") (read_lines ic)) in
        close_in ic; n
      with _ -> 8) in
    let want = (try int_of_string (Sys.getenv "VERIF_WORKERS") with _ -> max 4 (min 16 ncpu)) in
    let k = max 1 (min want (total / 30)) in
    if k = 1 then begin
      (* small job: in-process *)
      let tmp = Filename.temp_file "c29-" ".in" in
      let oc = open_out tmp in List.iter (fun l -> output_string oc l; output_char oc '\n') lines; close_out oc;
      let rc = Sys.command (Printf.sprintf "%s --worker < %s" (Filename.quote Sys.executable_name) (Filename.quote tmp)) in
      Sys.remove tmp; exit rc
    end else begin
      (* greedy balancing by estimated cost, heaviest first *)
      let loads = Array.make k 0 and parts = Array.make k [] in
      let sorted = List.stable_sort (fun a b -> compare (cost b) (cost a)) lines in
      List.iter (fun l ->
          let j = ref 0 in
          Array.iteri (fun i v -> if v < loads.(!j) then j := i) loads;
          loads.(!j) <- loads.(!j) + cost l; parts.(!j) <- l :: parts.(!j)) sorted;
      let ins = Array.init k (fun _ -> Filename.temp_file "c29-" ".in") in
      let outs = Array.init k (fun _ -> Filename.temp_file "c29-" ".out") in
      Array.iteri (fun i f ->
          let oc = open_out f in
          List.iter (fun l -> output_string oc l; output_char oc '\n') (List.rev parts.(i)); close_out oc) ins;
      let cmds = Array.to_list (Array.mapi (fun i f ->
          Printf.sprintf "( %s --worker < %s > %s || echo FAILED >> %s ) &" (Filename.quote Sys.executable_name)
            (Filename.quote f) (Filename.quote outs.(i)) (Filename.quote outs.(i))) ins) in
      let rc = Sys.command (String.concat " " cmds ^ " wait") in
      let results = Hashtbl.create 1024 in
      let failed = ref (rc <> 0) in
      Array.iter (fun f ->
          let ic = open_in f in
          List.iter (fun l ->
              if l = "FAILED" then failed := true else
              match String.split_on_char '\t' l with
              | "R" :: id :: _ -> Hashtbl.replace results id l
              | _ -> ()) (read_lines ic);
          close_in ic) outs;
      Array.iter Sys.remove ins; Array.iter Sys.remove outs;
      if !failed then (prerr_endline "driver: a worker failed"; exit 2);
      List.iter (fun l ->
          match String.split_on_char '\t' l with
          | id :: _ -> (match Hashtbl.find_opt results id with
              | Some r -> print_string r; print_char '\n'
              | None -> ())
          | _ -> ()) lines;
      flush stdout
    end
  end
