#!/usr/bin/env python3
"""Generates the hard-coded Ed25519 edge vectors of corpus/C29/{ed,edfull}.txt (deterministic).

  * the ZIP-215 small-order matrix: every pair (A, R) of the 14 encodings (8 canonical + 6
    non-canonical) of the 8 points of small order, with S = 0 and message "Zcash" -- the
    published ZIP-215 test set (all 196 are valid under ZIP-215);
  * mixed-order public keys A' = A + T and commitments R' = R + T (T of order 2, 4, 8) with the
    signature computed so that the cofactored equation holds;
  * S malleability (S + L), S = L, S = L - 1 (wrong), S with the top bits set;
  * x = 0 with the sign bit set ("negative zero") for A and R.
Nothing here is trusted: the expected verdicts are computed by the Coq reference, the Go verdicts by
the code under test.  python3 props/C29/gen_vectors.py  rewrites the two corpus files."""
import hashlib
import os

p = 2**255 - 19
L = 2**252 + 27742317777372353535851937790883648493
d = (-121665 * pow(121666, p - 2, p)) % p
I = pow(2, (p - 1) // 4, p)


def inv(x):
    return pow(x, p - 2, p)


def add(P, Q):
    x1, y1 = P
    x2, y2 = Q
    t = d * x1 * x2 * y1 * y2 % p
    return ((x1 * y2 + x2 * y1) * inv(1 + t) % p, (y1 * y2 + x1 * x2) * inv(1 - t) % p)


def mul(k, P):
    R = (0, 1)
    while k:
        if k & 1:
            R = add(R, P)
        P = add(P, P)
        k >>= 1
    return R


def xrecover(y, sign):
    u = (y * y - 1) % p
    v = (d * y * y + 1) % p
    x2 = u * inv(v) % p
    x = pow(x2, (p + 3) // 8, p)
    if (x * x - x2) % p != 0:
        x = x * I % p
    if (x * x - x2) % p != 0:
        return None
    if x & 1 != sign:
        x = p - x
    return x % p


By = 4 * inv(5) % p
B = (xrecover(By, 0), By)


def enc(P, noncanon=False, flipsign=False):
    x, y = P
    yy = y + p if noncanon else y
    assert yy < 2**255
    s = (x & 1) ^ (1 if flipsign else 0)
    return (yy | (s << 255)).to_bytes(32, "little")


def H(*parts):
    return int.from_bytes(hashlib.sha512(b"".join(parts)).digest(), "little")


def keypair(seed):
    h = hashlib.sha512(seed).digest()
    a = int.from_bytes(h[:32], "little")
    a &= (1 << 254) - 8
    a |= 1 << 254
    return a, h[32:], mul(a, B)


def hexs(b):
    return b.hex() if b else "-"


def case(pk, msg, sig):
    return "ed %s %s %s" % (hexs(pk), hexs(msg), hexs(sig))


def main():
    # the 8 small-order points: multiples of a point of order 8
    # a point of order 8: y with y^2 = (1 + sqrt(-1)... ) take T8 = [L]P for some P not in the prime subgroup
    T8 = None
    yy = 2
    while T8 is None:
        x = xrecover(yy, 0)
        if x is not None:
            Q = mul(L, (x, yy))
            if mul(4, Q) != (0, 1):
                T8 = Q
        yy += 1
    tors = [mul(i, T8) for i in range(8)]
    assert mul(8, T8) == (0, 1) and len(set(tors)) == 8
    encs = []
    for T in tors:
        encs.append(enc(T))
        x, y = T
        if y + p < 2**255:
            encs.append(enc(T, noncanon=True))
        if x == 0:
            encs.append(enc(T, flipsign=True))          # "negative zero"
            if y + p < 2**255:
                encs.append(enc(T, noncanon=True, flipsign=True))
    encs = sorted(set(encs))
    zc = b"Zcash"
    full = []
    for a in encs:
        for r in encs:
            full.append(case(a, zc, r + bytes(32)))
    quick = []
    # a spread of the matrix for the quick tier
    for i in range(5, len(full), 47):
        quick.append(full[i])

    edge = []
    a, prefix, A = keypair(bytes(range(32)))
    msg = b"C29 edge vector"
    for i, T in [(1, tors[1]), (4, tors[4])]:   # orders 8, 2
        # mixed-order public key A' = A + T, honest-style signature over the encoding of A'
        A2 = add(A, T)
        r = H(prefix, msg) % L
        R = mul(r, B)
        k = H(enc(R), enc(A2), msg) % L
        S = (r + k * a) % L
        edge.append(case(enc(A2), msg, enc(R) + S.to_bytes(32, "little")))
        # mixed-order commitment R' = R + T
        R2 = add(R, T)
        k = H(enc(R2), enc(A), msg) % L
        S = (r + k * a) % L
        edge.append(case(enc(A), msg, enc(R2) + S.to_bytes(32, "little")))
    # honest signature and its scalar variants
    r = H(prefix, msg) % L
    R = mul(r, B)
    k = H(enc(R), enc(A), msg) % L
    S = (r + k * a) % L
    edge.append(case(enc(A), msg, enc(R) + S.to_bytes(32, "little")))
    for S2 in (S + L, L, 0, S | (1 << 255)):
        if S2 < 2**256:
            edge.append(case(enc(A), msg, enc(R) + S2.to_bytes(32, "little")))
    # sign bit of R / A flipped (different point, or the same when x = 0)
    edge.append(case(enc(A), msg, enc(R, flipsign=True) + S.to_bytes(32, "little")))
    edge.append(case(enc(A, flipsign=True), msg, enc(R) + S.to_bytes(32, "little")))
    # y not on the curve
    for y in (2, 7, p - 2):
        if xrecover(y, 0) is None:
            edge.append(case(y.to_bytes(32, "little"), msg, enc(R) + S.to_bytes(32, "little")))
            edge.append(case(enc(A), msg, y.to_bytes(32, "little") + S.to_bytes(32, "little")))
    # wrong lengths
    sig = enc(R) + S.to_bytes(32, "little")
    edge.append(case(enc(A), msg, sig[:63]))
    edge.append(case(enc(A), msg, sig + b"\x00"))
    edge.append(case(enc(A), msg, b""))
    edge.append(case(enc(A)[:31], msg, sig))
    edge.append(case(enc(A) + b"\x00", msg, sig))
    # RFC 8032 test vectors 1-3
    rfc = [
        ("d75a980182b10ab7d54bfed3c964073a0ee172f3daa62325af021a68f707511a", "",
         "e5564300c360ac729086e2cc806e828a84877f1eb8e5d974d873e065224901555fb8821590a33bacc61e39701cf9b46bd25bf5f0595bbe24655141438e7a100b"),
        ("3d4017c3e843895a92b70aa74d1b7ebc9c982ccf2ec4968cc0cd55f12af4660c", "72",
         "92a009a9f0d4cab8720e820b5f642540a2b27b5416503f8fb3762223ebdb69da085ac1e43e15996e458f3613d0f11d8c387b2eaeb4302aeeb00d291612bb0c00"),
        ("fc51cd8e6218a1a38da47ed00230f0580816ed13ba3303ac5deb911548908025", "af82",
         "6291d657deec24024827e69c3abe01a30ce548a284743a445e3680d7db5ac3ac18ff9b538d16f290ae67f760984dc6594a7c15e9716ed28dc027beceea1ec40a"),
    ]
    for pk, m, s in rfc:
        edge.append("ed %s %s %s" % (pk, m or "-", s))

    out = os.path.join(os.path.dirname(os.path.abspath(__file__)), "..", "..", "corpus", "C29")
    os.makedirs(out, exist_ok=True)
    hdr = "# generated by props/C29/gen_vectors.py -- do not edit\n"
    open(os.path.join(out, "ed.txt"), "w").write(hdr + "\n".join(edge + quick) + "\n")
    open(os.path.join(out, "edfull.txt"), "w").write(hdr + "\n".join(full) + "\n")
    print("ed.txt: %d cases; edfull.txt: %d cases; %d small-order encodings" % (len(edge + quick), len(full), len(encs)))


if __name__ == "__main__":
    main()
