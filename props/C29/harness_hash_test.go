// C29 correspondence harness for lib/common/hasher.go (injected into package common by
// `go test -overlay`).
//
// input:     hash <hex message>
// observed:  <Blake2b128> <Blake2bHash> <Blake2b8> <Twox64> <Twox128Hash> <Twox256> <Keccak256> <Sha256>
//            (each lower-case hex; "err" if the helper returned an error)
package common

import (
	"strings"
	"testing"

	vu "github.com/ChainSafe/gossamer/internal/verifutil"
)

// lengths around the block sizes of every function involved: xxh64 4/8/32, SHA-256 55/56/64,
// BLAKE2b 128, Keccak rate 136, and multiples
var c29Boundaries = []int{0, 1, 3, 4, 5, 7, 8, 9, 12, 15, 16, 17, 24, 31, 32, 33, 36, 40, 55, 56, 57, 63, 64, 65,
	96, 111, 112, 113, 119, 120, 121, 127, 128, 129, 135, 136, 137, 191, 192, 193, 255, 256, 257, 271, 272, 273,
	383, 384, 385, 407, 408, 409}

func c29Msg(r *vu.RNG) []byte {
	var n int
	switch r.Intn(10) {
	case 0, 1, 2, 3, 4:
		n = c29Boundaries[r.Intn(len(c29Boundaries))]
	case 5, 6, 7:
		n = r.Intn(300)
	case 8:
		n = 136*r.Range(1, 5) + r.Range(-1, 1)
	default:
		n = r.Intn(1200)
	}
	if vu.Thorough() && r.Chance(1, 400) { // long inputs: the bulk loops of the assembly back ends
		n = 16384 + r.Intn(2)*49152 + r.Range(-1, 130)
	}
	b := r.Bytes(n)
	switch r.Intn(8) {
	case 0:
		for i := range b {
			b[i] = 0
		}
	case 1:
		for i := range b {
			b[i] = 0xff
		}
	case 2:
		if n > 0 {
			b[n-1] = []byte{0x00, 0x01, 0x80, 0x81, 0x06}[r.Intn(5)] // bytes that look like padding
		}
	}
	return b
}

func c29HashGen(r *vu.RNG, n int, emit func(string)) {
	for _, l := range c29Boundaries {
		b := make([]byte, l)
		for i := range b {
			b[i] = byte(i*7 + 3)
		}
		emit("hash " + vu.Hex(b))
	}
	for i := 0; i < n; i++ {
		emit("hash " + vu.Hex(c29Msg(r)))
	}
}

func c29HashRun(in string) string {
	f := strings.Split(in, " ")
	if len(f) != 2 || f[0] != "hash" {
		return "err:badinput"
	}
	m := vu.UnHex(f[1])
	cp := func() []byte { return append([]byte{}, m...) }
	hx := func(b []byte, err error) string {
		if err != nil {
			return "err"
		}
		return vu.Hex(b)
	}
	hh := func(h Hash, err error) string {
		if err != nil {
			return "err"
		}
		return vu.Hex(h[:])
	}
	b8, err8 := Blake2b8(cp())
	return strings.Join([]string{
		hx(Blake2b128(cp())), hh(Blake2bHash(cp())), hx(b8[:], err8), hx(Twox64(cp())), hx(Twox128Hash(cp())),
		hh(Twox256(cp())), hh(Keccak256(cp())), hh(Sha256(cp()), nil)}, " ")
}

func TestVerifC29Hash(t *testing.T) { vu.Run(t, "C29", 800, c29HashGen, c29HashRun) }
