// C29 correspondence harness for lib/crypto/ed25519 (injected into package ed25519).
//
// input:     ed <public key hex> <message hex> <signature hex>
// observed:  ok | fail | err        (VerifySignature(publicKey, signature, message): nil /
//                                    ErrSignatureVerificationFailed / any other error)
// Hard-coded published edge vectors (ZIP-215 small-order matrix, mixed-order keys, scalar
// malleability, RFC 8032 vectors) come from corpus/C29/ed.txt and corpus/C29/edfull.txt.
package ed25519

import (
	stded "crypto/ed25519"
	"errors"
	"math/big"
	"strings"
	"testing"

	"github.com/ChainSafe/gossamer/lib/crypto"
	vu "github.com/ChainSafe/gossamer/internal/verifutil"
)

var c29L, _ = new(big.Int).SetString("7237005577332262213973186563042994240857116359379907606001950938285454250989", 10)

func c29le(b []byte) *big.Int {
	r := make([]byte, len(b))
	for i := range b {
		r[len(b)-1-i] = b[i]
	}
	return new(big.Int).SetBytes(r)
}

func c29tole(v *big.Int, n int) []byte {
	be := v.Bytes()
	out := make([]byte, n)
	for i := 0; i < len(be) && i < n; i++ {
		out[i] = be[len(be)-1-i]
	}
	return out
}

// message lengths around the SHA-512 block boundaries of SHA-512(R || A || M): 64 + len
var c29EdLens = []int{0, 1, 2, 31, 32, 47, 48, 49, 63, 64, 65, 111, 112, 113, 127, 128, 175, 176, 177, 191, 192, 193, 300}

func c29EdGen(r *vu.RNG, n int, emit func(string)) {
	c := func(pk, msg, sig []byte) { emit("ed " + vu.Hex(pk) + " " + vu.Hex(msg) + " " + vu.Hex(sig)) }
	for i := 0; i < n; i++ {
		priv := stded.NewKeyFromSeed(r.Bytes(32))
		pk := []byte(priv.Public().(stded.PublicKey))
		var msg []byte
		if r.Chance(2, 3) {
			msg = r.Bytes(c29EdLens[r.Intn(len(c29EdLens))])
		} else {
			msg = r.Bytes(r.Intn(200))
		}
		sig := stded.Sign(priv, msg)
		switch r.Intn(12) {
		case 0, 1, 2, 3: // honest
			c(pk, msg, sig)
		case 4: // message tampered
			m2 := append([]byte{}, msg...)
			if len(m2) == 0 {
				m2 = []byte{0}
			} else {
				m2[r.Intn(len(m2))] ^= 1 << uint(r.Intn(8))
			}
			c(pk, m2, sig)
		case 5: // R tampered
			s2 := append([]byte{}, sig...)
			s2[r.Intn(32)] ^= 1 << uint(r.Intn(8))
			c(pk, msg, s2)
		case 6: // S tampered
			s2 := append([]byte{}, sig...)
			s2[32+r.Intn(32)] ^= 1 << uint(r.Intn(8))
			c(pk, msg, s2)
		case 7: // public key tampered
			p2 := append([]byte{}, pk...)
			p2[r.Intn(32)] ^= 1 << uint(r.Intn(8))
			c(p2, msg, sig)
		case 8: // S + L: same residue, non-canonical scalar
			s := c29le(sig[32:])
			s.Add(s, c29L)
			s2 := append(append([]byte{}, sig[:32]...), c29tole(s, 32)...)
			c(pk, msg, s2)
		case 9: // signature by another key
			priv2 := stded.NewKeyFromSeed(r.Bytes(32))
			c(pk, msg, stded.Sign(priv2, msg))
		case 10: // wrong lengths
			switch r.Intn(4) {
			case 0:
				c(pk, msg, sig[:r.Intn(64)])
			case 1:
				c(pk, msg, append(append([]byte{}, sig...), r.Bytes(1+r.Intn(3))...))
			case 2:
				c(pk[:r.Intn(32)], msg, sig)
			default:
				c(append(append([]byte{}, pk...), 0), msg, sig)
			}
		default: // random bytes
			c(r.Bytes(32), msg, r.Bytes(64))
		}
	}
}

func c29EdRun(in string) string {
	f := strings.Split(in, " ")
	if len(f) != 4 || f[0] != "ed" {
		return "err:badinput"
	}
	pk, msg, sig := vu.UnHex(f[1]), vu.UnHex(f[2]), vu.UnHex(f[3])
	err := VerifySignature(pk, sig, msg)
	switch {
	case err == nil:
		return "ok"
	case errors.Is(err, crypto.ErrSignatureVerificationFailed):
		return "fail"
	default:
		return "err"
	}
}

func TestVerifC29Ed(t *testing.T)     { vu.Run(t, "C29", 24, c29EdGen, c29EdRun) }
func TestVerifC29EdFull(t *testing.T) { vu.Run(t, "C29", 200, c29EdGen, c29EdRun) }
