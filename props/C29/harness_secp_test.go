// C29 correspondence harness for lib/crypto/secp256k1 (injected into package secp256k1).
//
// inputs (hex fields):
//   sverify   <public key> <message> <signature>   VerifySignature(publicKey, signature, message)
//   spkverify <public key> <message> <signature>   new(PublicKey).Decode(key) then Verify(msg, sig)
//   srecover  <message> <signature>                RecoverPublicKey(msg, sig)
//   srecoverc <message> <signature>                RecoverPublicKeyCompressed(msg, sig)
// observed:
//   sverify   -> ok | fail
//   spkverify -> badkey | err | fail | ok
//   srecover* -> <key hex> | err      ("panic" is produced by verifutil on a recovered panic)
package secp256k1

import (
	"math/big"
	"strings"
	"testing"

	vu "github.com/ChainSafe/gossamer/internal/verifutil"
	ethcrypto "github.com/ethereum/go-ethereum/crypto"
)

var c29N, _ = new(big.Int).SetString("fffffffffffffffffffffffffffffffebaaedce6af48a03bbfd25e8cd0364141", 16)
var c29P, _ = new(big.Int).SetString("fffffffffffffffffffffffffffffffffffffffffffffffffffffffefffffc2f", 16)

func c29b32(v *big.Int) []byte {
	b := v.Bytes()
	out := make([]byte, 32)
	copy(out[32-len(b):], b)
	return out
}

func c29SecpGen(r *vu.RNG, n int, emit func(string)) {
	h := vu.Hex
	// fixed edge cases first
	{
		priv, _ := ethcrypto.ToECDSA(c29b32(big.NewInt(1)))
		msg := make([]byte, 32)
		sig, _ := ethcrypto.Sign(msg, priv)
		zero := make([]byte, 32)
		emit("sverify " + h(ethcrypto.CompressPubkey(&priv.PublicKey)) + " " + h(msg) + " " + h(append(append([]byte{}, zero...), sig[32:64]...)))    // r = 0
		emit("sverify " + h(ethcrypto.CompressPubkey(&priv.PublicKey)) + " " + h(msg) + " " + h(append(append([]byte{}, sig[:32]...), zero...)))       // s = 0
		emit("sverify " + h(ethcrypto.CompressPubkey(&priv.PublicKey)) + " " + h(msg) + " " + h(append(append([]byte{}, sig[:32]...), c29b32(c29N)...))) // s = n
		emit("sverify " + h(ethcrypto.CompressPubkey(&priv.PublicKey)) + " " + h(msg) + " " + h(append(c29b32(c29N), sig[32:64]...)))                  // r = n
		emit("srecover " + h(msg) + " " + h(append(append(append([]byte{}, zero...), sig[32:64]...), 0)))
		emit("srecover " + h(msg) + " " + h(append(append(append([]byte{}, sig[:32]...), zero...), 0)))
		emit("srecover " + h(msg) + " " + h(append(append(c29b32(c29N), sig[32:64]...), 0)))
		emit("srecover " + h(msg) + " " + h(sig[:64]))
		emit("srecoverc " + h(msg) + " " + h(sig[:10]))
		emit("srecover " + h(msg) + " -")
		emit("srecover " + h(msg) + " " + h(append(append([]byte{}, sig...), 0)))
		emit("srecover " + h(msg[:31]) + " " + h(sig))
		// honest signatures with the Ethereum-style recovery ids 27 and 28 (both parities), and 0/1
		seen := map[byte]bool{}
		for i := 0; i < 16 && len(seen) < 2; i++ {
			m2 := make([]byte, 32)
			m2[0] = byte(i + 1)
			sg, _ := ethcrypto.Sign(m2, priv)
			if seen[sg[64]] {
				continue
			}
			seen[sg[64]] = true
			emit("srecoverc " + h(m2) + " " + h(sg))
			s27 := append([]byte{}, sg...)
			s27[64] += 27
			emit("srecover " + h(m2) + " " + h(s27))
			emit("srecoverc " + h(m2) + " " + h(s27))
		}
		// x = r + n: recovery ids 2 and 3 with a tiny r
		for v := byte(0); v < 4; v++ {
			for _, rr := range []int64{1, 2} {
				emit("srecover " + h(msg) + " " + h(append(append(c29b32(big.NewInt(rr)), c29b32(big.NewInt(1))...), v)))
			}
		}
	}
	for i := 0; i < n; i++ {
		d := new(big.Int).SetBytes(r.Bytes(32))
		d.Mod(d, new(big.Int).Sub(c29N, big.NewInt(1)))
		d.Add(d, big.NewInt(1))
		priv, err := ethcrypto.ToECDSA(c29b32(d))
		if err != nil {
			continue
		}
		msg := r.Bytes(32)
		if r.Chance(1, 12) { // message numerically >= n
			for j := 0; j < 16; j++ {
				msg[j] = 0xff
			}
		}
		sig, err := ethcrypto.Sign(msg, priv)
		if err != nil {
			continue
		}
		cpk := ethcrypto.CompressPubkey(&priv.PublicKey)
		upk := ethcrypto.FromECDSAPub(&priv.PublicKey)
		pk := cpk
		switch r.Intn(5) {
		case 0:
			pk = upk
		case 1: // hybrid encoding 06/07
			pk = append([]byte{}, upk...)
			pk[0] = 6 + (upk[64] & 1)
		}
		rs := append([]byte{}, sig[:64]...)
		highS := func() []byte {
			s := new(big.Int).SetBytes(sig[32:64])
			s.Sub(c29N, s)
			return append(append([]byte{}, sig[:32]...), c29b32(s)...)
		}
		switch r.Intn(20) {
		case 0, 1, 2:
			emit("sverify " + h(pk) + " " + h(msg) + " " + h(rs))
		case 3:
			emit("spkverify " + h(cpk) + " " + h(msg) + " " + h(rs))
		case 4: // high S: same r, s' = n - s
			emit("sverify " + h(pk) + " " + h(msg) + " " + h(highS()))
		case 5: // tampered message / signature / key
			m2 := append([]byte{}, msg...)
			m2[r.Intn(32)] ^= 1 << uint(r.Intn(8))
			emit("sverify " + h(pk) + " " + h(m2) + " " + h(rs))
		case 6:
			s2 := append([]byte{}, rs...)
			s2[r.Intn(64)] ^= 1 << uint(r.Intn(8))
			emit("sverify " + h(pk) + " " + h(msg) + " " + h(s2))
		case 7: // malformed keys
			p2 := append([]byte{}, pk...)
			switch r.Intn(5) {
			case 0:
				p2[0] = byte(r.Intn(9))
			case 1:
				p2 = p2[:len(p2)-1]
			case 2:
				p2[1+r.Intn(len(p2)-1)] ^= 1 << uint(r.Intn(8))
			case 3: // x >= p
				copy(p2[1:33], c29b32(new(big.Int).Add(c29P, big.NewInt(int64(r.Intn(1000))))))
			default: // hybrid with the wrong parity
				p2 = append([]byte{}, upk...)
				p2[0] = 7 - (upk[64] & 1)
			}
			if r.Chance(1, 2) {
				emit("sverify " + h(p2) + " " + h(msg) + " " + h(rs))
			} else {
				emit("spkverify " + h(p2) + " " + h(msg) + " " + h(rs))
			}
		case 8: // wrong lengths
			switch r.Intn(4) {
			case 0:
				emit("sverify " + h(pk) + " " + h(msg[:31]) + " " + h(rs))
			case 1:
				emit("sverify " + h(pk) + " " + h(msg) + " " + h(sig))
			case 2:
				emit("spkverify " + h(cpk) + " " + h(msg) + " " + h(sig))
			default:
				emit("spkverify " + h(cpk) + " " + h(append(append([]byte{}, msg...), 0)) + " " + h(rs))
			}
		case 9, 10, 11: // honest recovery, optionally with the Ethereum offset 27
			s2 := append([]byte{}, sig...)
			if r.Chance(1, 2) {
				s2[64] += 27
			}
			if r.Chance(1, 2) {
				emit("srecover " + h(msg) + " " + h(s2))
			} else {
				emit("srecoverc " + h(msg) + " " + h(s2))
			}
		case 12: // high S with the flipped recovery id recovers the same key
			s2 := append(highS(), sig[64]^1)
			emit("srecover " + h(msg) + " " + h(s2))
		case 13: // wrong recovery id
			s2 := append([]byte{}, sig...)
			s2[64] = []byte{sig[64] ^ 1, 2, 3, 4, 26, 27, 28, 29, 30, 31, 255}[r.Intn(11)]
			emit("srecover " + h(msg) + " " + h(s2))
		case 14: // recovery on another message
			emit("srecoverc " + h(r.Bytes(32)) + " " + h(sig))
		case 15, 16: // random r, s, v
			s2 := r.Bytes(65)
			s2[64] = byte(r.Intn(4))
			if r.Chance(1, 4) {
				s2[64] += 27
			}
			if r.Chance(1, 2) {
				emit("srecover " + h(msg) + " " + h(s2))
			} else {
				emit("srecoverc " + h(msg) + " " + h(s2))
			}
		case 17: // short / long signatures
			l := []int{0, 1, 32, 63, 64, 66, 70}[r.Intn(7)]
			s2 := append(append([]byte{}, sig...), 0, 0, 0, 0, 0)[:l]
			if r.Chance(1, 2) {
				emit("srecover " + h(msg) + " " + h(s2))
			} else {
				emit("srecoverc " + h(msg) + " " + h(s2))
			}
		case 18: // r or s overflowing
			s2 := append([]byte{}, sig...)
			if r.Chance(1, 2) {
				copy(s2[:32], c29b32(new(big.Int).Add(c29N, big.NewInt(int64(r.Intn(5))))))
			} else {
				copy(s2[32:64], c29b32(new(big.Int).Add(c29N, big.NewInt(int64(r.Intn(5))))))
			}
			if r.Chance(1, 2) {
				emit("srecover " + h(msg) + " " + h(s2))
			} else {
				emit("sverify " + h(pk) + " " + h(msg) + " " + h(s2[:64]))
			}
		default: // signature by another key
			d2 := new(big.Int).Add(d, big.NewInt(1))
			d2.Mod(d2, c29N)
			if d2.Sign() == 0 {
				d2.SetInt64(1)
			}
			priv2, _ := ethcrypto.ToECDSA(c29b32(d2))
			sg2, _ := ethcrypto.Sign(msg, priv2)
			emit("sverify " + h(pk) + " " + h(msg) + " " + h(sg2[:64]))
		}
	}
}

func c29SecpRun(in string) string {
	f := strings.Split(in, " ")
	switch {
	case f[0] == "sverify" && len(f) == 4:
		if VerifySignature(vu.UnHex(f[1]), vu.UnHex(f[3]), vu.UnHex(f[2])) == nil {
			return "ok"
		}
		return "fail"
	case f[0] == "spkverify" && len(f) == 4:
		k := new(PublicKey)
		if err := k.Decode(vu.UnHex(f[1])); err != nil {
			return "badkey"
		}
		ok, err := k.Verify(vu.UnHex(f[2]), vu.UnHex(f[3]))
		if err != nil {
			return "err"
		}
		if ok {
			return "ok"
		}
		return "fail"
	case (f[0] == "srecover" || f[0] == "srecoverc") && len(f) == 3:
		var key []byte
		var err error
		if f[0] == "srecover" {
			key, err = RecoverPublicKey(vu.UnHex(f[1]), vu.UnHex(f[2]))
		} else {
			key, err = RecoverPublicKeyCompressed(vu.UnHex(f[1]), vu.UnHex(f[2]))
		}
		if err != nil {
			return "err"
		}
		return vu.Hex(key)
	}
	return "err:badinput"
}

func TestVerifC29Secp(t *testing.T) { vu.Run(t, "C29", 40, c29SecpGen, c29SecpRun) }
