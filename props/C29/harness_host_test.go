// C29 correspondence harness for the hashing / crypto host functions of
// lib/runtime/wazero/imports.go (injected into package wazero_runtime).
//
// The host functions are called directly with a real wazero api.Module (a minimal Wasm binary that
// only exports a 64-page memory, as the C10 harness does) and a context carrying a runtime.Context
// with a fresh FreeingBumpHeapAllocator and a signature verifier that is not started.
//
// inputs (hex fields):
//   hhash  <message>                  the seven ext_hashing_*_version_1 functions
//   hed    <key32> <message> <sig64>  ext_crypto_ed25519_verify_version_1
//   hecdsa <key33> <message> <sig65>  ext_crypto_ecdsa_verify_version_2 (the guest buffer holds the
//                                     65-byte signature Substrate passes; gossamer reads 64 bytes)
//   hrec   <msg32> <sig65>            ext_crypto_secp256k1_ecdsa_recover_version_1 and _version_2
//   hrecc  <msg32> <sig65>            ext_crypto_secp256k1_ecdsa_recover_compressed_version_1 and _2
//   hsr1   <key32> <message> <sig64>  ext_crypto_sr25519_verify_version_1
//   hsr2   <key32> <message> <sig64>  ext_crypto_sr25519_verify_version_2
// observed:
//   hhash  -> <blake2_128> <blake2_256> <twox_64> <twox_128> <twox_256> <keccak_256> <sha2_256>
//   hed, hecdsa, hsr1, hsr2 -> 0 | 1
//   hrec*  -> <v1> <v2>, each <key hex> | err  (SCALE Result: first byte 0 = Ok followed by the key;
//                                  otherwise err), followed by " mut" if the call changed the
//                                  signature bytes in guest memory
package wazero_runtime

import (
	"context"
	"strings"
	"sync"
	"testing"

	vu "github.com/ChainSafe/gossamer/internal/verifutil"
	"github.com/ChainSafe/gossamer/lib/common"
	"github.com/ChainSafe/gossamer/lib/crypto"
	"github.com/ChainSafe/gossamer/lib/crypto/sr25519"
	"github.com/ChainSafe/gossamer/lib/runtime"
	"github.com/ChainSafe/gossamer/lib/runtime/allocator"
	stded "crypto/ed25519"
	schnorrkel "github.com/ChainSafe/go-schnorrkel"
	ethcrypto "github.com/ethereum/go-ethereum/crypto"
	"github.com/gtank/merlin"
	"github.com/tetratelabs/wazero"
	"github.com/tetratelabs/wazero/api"
)

// (module (memory (export "memory") 64))
var c29Wasm = []byte{
	0x00, 0x61, 0x73, 0x6d, 0x01, 0x00, 0x00, 0x00,
	0x05, 0x03, 0x01, 0x00, 0x40,
	0x07, 0x0a, 0x01, 0x06, 'm', 'e', 'm', 'o', 'r', 'y', 0x02, 0x00,
}

var (
	c29Once sync.Once
	c29Mod  api.Module
	c29Err  error
)

func c29Module() (api.Module, error) {
	c29Once.Do(func() {
		ctx := context.Background()
		rt := wazero.NewRuntime(ctx)
		c29Mod, c29Err = rt.Instantiate(ctx, c29Wasm)
	})
	return c29Mod, c29Err
}

type c29Erroer struct{}

func (c29Erroer) Errorf(string, ...interface{}) {}

// c29Place writes the buffers one after another from address 16 and returns their addresses and a
// context whose allocator starts behind them.
func c29Place(m api.Module, bufs ...[]byte) ([]uint32, context.Context, bool) {
	ptrs := make([]uint32, len(bufs))
	p := uint32(16)
	for i, b := range bufs {
		ptrs[i] = p
		if !m.Memory().Write(p, b) {
			return nil, nil, false
		}
		p += uint32(len(b)) + 8
	}
	heapBase := (p + 64) &^ 7
	rtCtx := &runtime.Context{
		Allocator:   allocator.NewFreeingBumpHeapAllocator(heapBase),
		SigVerifier: crypto.NewSignatureVerifier(c29Erroer{}),
	}
	return ptrs, context.WithValue(context.Background(), runtimeContextKey, rtCtx), true
}

func c29HostRun(in string) string {
	f := strings.Split(in, " ")
	m, err := c29Module()
	if err != nil {
		return "err:module"
	}
	switch {
	case f[0] == "hhash" && len(f) == 2:
		data := vu.UnHex(f[1])
		fns := []struct {
			fn func(context.Context, api.Module, uint64) uint32
			n  uint32
		}{
			{ext_hashing_blake2_128_version_1, 16}, {ext_hashing_blake2_256_version_1, 32},
			{ext_hashing_twox_64_version_1, 8}, {ext_hashing_twox_128_version_1, 16},
			{ext_hashing_twox_256_version_1, 32}, {ext_hashing_keccak_256_version_1, 32},
			{ext_hashing_sha2_256_version_1, 32},
		}
		out := make([]string, 0, len(fns))
		for _, h := range fns {
			ptrs, ctx, ok := c29Place(m, data)
			if !ok {
				return "err:memwrite"
			}
			p := h.fn(ctx, m, newPointerSize(ptrs[0], uint32(len(data))))
			if p == 0 {
				out = append(out, "err")
				continue
			}
			b, ok := m.Memory().Read(p, uint64(h.n))
			if !ok {
				return "err:memread"
			}
			out = append(out, vu.Hex(b))
		}
		return strings.Join(out, " ")
	case f[0] == "hed" && len(f) == 4:
		pk, msg, sig := vu.UnHex(f[1]), vu.UnHex(f[2]), vu.UnHex(f[3])
		if len(pk) != 32 || len(sig) != 64 {
			return "err:badinput"
		}
		ptrs, ctx, ok := c29Place(m, sig, msg, pk)
		if !ok {
			return "err:memwrite"
		}
		return vu.X(uint64(ext_crypto_ed25519_verify_version_1(ctx, m, ptrs[0], newPointerSize(ptrs[1], uint32(len(msg))), ptrs[2])))
	case f[0] == "hecdsa" && len(f) == 4:
		pk, msg, sig := vu.UnHex(f[1]), vu.UnHex(f[2]), vu.UnHex(f[3])
		if len(pk) != 33 || len(sig) != 65 {
			return "err:badinput"
		}
		ptrs, ctx, ok := c29Place(m, sig, msg, pk)
		if !ok {
			return "err:memwrite"
		}
		return vu.X(uint64(ext_crypto_ecdsa_verify_version_2(ctx, m, ptrs[0], newPointerSize(ptrs[1], uint32(len(msg))), ptrs[2])))
	case (f[0] == "hsr1" || f[0] == "hsr2") && len(f) == 4:
		pk, msg, sig := vu.UnHex(f[1]), vu.UnHex(f[2]), vu.UnHex(f[3])
		if len(pk) != 32 || len(sig) != 64 {
			return "err:badinput"
		}
		ptrs, ctx, ok := c29Place(m, sig, msg, pk)
		if !ok {
			return "err:memwrite"
		}
		fn := ext_crypto_sr25519_verify_version_1
		if f[0] == "hsr2" {
			fn = ext_crypto_sr25519_verify_version_2
		}
		return vu.X(uint64(fn(ctx, m, ptrs[0], newPointerSize(ptrs[1], uint32(len(msg))), ptrs[2])))
	case (f[0] == "hrec" || f[0] == "hrecc") && len(f) == 3:
		msg, sig := vu.UnHex(f[1]), vu.UnHex(f[2])
		if len(msg) != 32 || len(sig) != 65 {
			return "err:badinput"
		}
		keyLen := uint64(64)
		fns := []func(context.Context, api.Module, uint32, uint32) uint64{
			ext_crypto_secp256k1_ecdsa_recover_version_1, ext_crypto_secp256k1_ecdsa_recover_version_2}
		if f[0] == "hrecc" {
			keyLen = 33
			fns = []func(context.Context, api.Module, uint32, uint32) uint64{
				ext_crypto_secp256k1_ecdsa_recover_compressed_version_1, ext_crypto_secp256k1_ecdsa_recover_compressed_version_2}
		}
		var res []string
		mut := ""
		for _, fn := range fns {
			ptrs, ctx, ok := c29Place(m, sig, msg)
			if !ok {
				return "err:memwrite"
			}
			ret := fn(ctx, m, ptrs[0], ptrs[1])
			if after, ok := m.Memory().Read(ptrs[0], 65); !ok || vu.Hex(after) != vu.Hex(sig) {
				mut = " mut"
			}
			p, n := splitPointerSize(ret)
			b, ok := m.Memory().Read(p, n)
			if !ok || len(b) == 0 {
				return "err:memread"
			}
			if b[0] == 0 && uint64(len(b)) == 1+keyLen {
				res = append(res, vu.Hex(b[1:]))
			} else if b[0] == 0 {
				res = append(res, "err:oklen")
			} else {
				res = append(res, "err")
			}
		}
		return res[0] + " " + res[1] + mut
	}
	return "err:badinput"
}

// c29SrSign: a schnorrkel signature with a deterministic nonce; old = schnorrkel 0.1.1 transcript
// and labels (see props/C29/harness_sr_test.go)
func c29SrSign(kp *sr25519.Keypair, msg, nonce64 []byte, old, mark bool) []byte {
	var key [32]byte
	copy(key[:], kp.Private().Encode())
	x, err := schnorrkel.ScalarFromBytes(key)
	if err != nil {
		panic(err)
	}
	r, _ := schnorrkel.NewRandomScalar()
	r.FromUniformBytes(nonce64)
	R, _ := schnorrkel.NewRandomElement()
	R.ScalarBaseMult(r)
	rEnc := R.Encode(nil)
	var t *merlin.Transcript
	lpk, lr, lc := "sign:pk", "sign:R", "sign:c"
	if old {
		t = merlin.NewTranscript("substrate")
		t.AppendMessage([]byte("sign-bytes"), msg)
		lpk, lr, lc = "pk", "no", ""
	} else {
		t = schnorrkel.NewSigningContext(sr25519.SigningContext, msg)
	}
	t.AppendMessage([]byte("proto-name"), []byte("Schnorr-sig"))
	t.AppendMessage([]byte(lpk), kp.Public().Encode())
	t.AppendMessage([]byte(lr), rEnc)
	k, _ := schnorrkel.NewRandomScalar()
	k.FromUniformBytes(t.ExtractBytes([]byte(lc), 64))
	s := k.Multiply(k, x).Add(k, r)
	sig := append(append([]byte{}, rEnc...), s.Encode(nil)...)
	if mark {
		sig[63] |= 128
	}
	return sig
}

var c29HostLens = []int{0, 1, 31, 32, 63, 64, 127, 128, 129, 135, 136, 137, 255, 256, 300}

// c29HostModes is the number of case classes of c29HostCase; the generator emits one case of
// every class first (so that every host function and every branch of its model is reached in
// every run) and then n cases of random classes.
const c29HostModes = 25

func c29HostCase(r *vu.RNG, mode int, emit func(string)) {
	h := vu.Hex
	switch {
	case mode == 0: // hashes
		l := c29HostLens[r.Intn(len(c29HostLens))]
		if r.Chance(1, 2) {
			l = r.Intn(400)
		}
		emit("hhash " + h(r.Bytes(l)))
	case mode <= 2: // ed25519: 1 honest, 2 tampered
		priv := stded.NewKeyFromSeed(r.Bytes(32))
		pk := []byte(priv.Public().(stded.PublicKey))
		msg := r.Bytes(r.Intn(100))
		sig := stded.Sign(priv, msg)
		if mode == 2 {
			sig[r.Intn(64)] ^= 1 << uint(r.Intn(8))
		}
		emit("hed " + h(pk) + " " + h(msg) + " " + h(sig))
	case mode <= 13: // secp256k1
		d := r.Bytes(32)
		d[0] &= 0x7f
		d[31] |= 1
		priv, err := ethcrypto.ToECDSA(d)
		if err != nil {
			return
		}
		msg := r.Bytes(r.Intn(100))
		hash, _ := common.Blake2bHash(msg)
		sig, err := ethcrypto.Sign(hash[:], priv)
		if err != nil {
			return
		}
		cpk := ethcrypto.CompressPubkey(&priv.PublicKey)
		flip := func() []byte { // high-S twin with the flipped recovery id
			s := new(c29Int).sub(sig[32:64])
			return append(append(append([]byte{}, sig[:32]...), s...), sig[64]^1)
		}
		switch mode {
		case 3:
			emit("hecdsa " + h(cpk) + " " + h(msg) + " " + h(sig))
		case 4: // wrong recovery id: Substrate recovers another key
			s2 := append([]byte{}, sig...)
			s2[64] ^= 1
			emit("hecdsa " + h(cpk) + " " + h(msg) + " " + h(s2))
		case 5: // high S with the matching id: valid for Substrate
			emit("hecdsa " + h(cpk) + " " + h(msg) + " " + h(flip()))
		case 6: // tampered
			s2 := append([]byte{}, sig...)
			s2[r.Intn(64)] ^= 1 << uint(r.Intn(8))
			emit("hecdsa " + h(cpk) + " " + h(msg) + " " + h(s2))
		case 7: // recovery id out of range (Substrate's verify takes 0..3 only)
			s2 := append([]byte{}, sig...)
			s2[64] = []byte{4, 27, 28, 255}[r.Intn(4)]
			emit("hecdsa " + h(cpk) + " " + h(msg) + " " + h(s2))
		case 8:
			emit("hrec " + h(hash[:]) + " " + h(sig))
		case 9: // Ethereum-style id 27/28: the host function rewrites the byte in guest memory
			s2 := append([]byte{}, sig...)
			s2[64] += 27
			if r.Chance(1, 2) {
				emit("hrec " + h(hash[:]) + " " + h(s2))
			} else {
				emit("hrecc " + h(hash[:]) + " " + h(s2))
			}
		case 10:
			emit("hrecc " + h(hash[:]) + " " + h(sig))
		case 11:
			emit("hrec " + h(hash[:]) + " " + h(flip()))
		case 12:
			s2 := r.Bytes(65)
			s2[64] = []byte{0, 1, 2, 3, 4, 5, 26, 27, 30, 31, 255}[r.Intn(11)]
			emit("hrecc " + h(hash[:]) + " " + h(s2))
		default: // r or s not below the group order: version 1 of Substrate reduces them, version 2 rejects
			small := append(make([]byte, 16), r.Bytes(16)...)
			small[16] &= 0x3f
			over := new(c29Int).addOrder(small)
			s2 := append([]byte{}, sig...)
			if r.Chance(2, 3) {
				copy(s2[:32], over) // r + n with r < 2^126: x = r may or may not be on the curve
				s2[64] = byte(r.Intn(2))
			} else {
				copy(s2[32:64], over)
			}
			if r.Chance(1, 2) {
				emit("hrec " + h(hash[:]) + " " + h(s2))
			} else {
				emit("hrecc " + h(hash[:]) + " " + h(s2))
			}
		}
	default: // sr25519
		kp, err := sr25519.NewKeypairFromSeed(r.Bytes(32))
		if err != nil {
			return
		}
		pk := kp.Public().Encode()
		msg := r.Bytes(r.Intn(120))
		zero := make([]byte, 32)
		c := func(v int, pk, msg, sig []byte) {
			emit("hsr" + string(rune('0'+v)) + " " + h(pk) + " " + h(msg) + " " + h(sig))
		}
		tamper := func(m []byte) []byte {
			m2 := append([]byte{}, m...)
			if len(m2) == 0 {
				return []byte{1}
			}
			m2[r.Intn(len(m2))] ^= 1 << uint(r.Intn(8))
			return m2
		}
		idSig := func(mark bool) []byte { // R = s*B: valid under the identity key
			s, _ := schnorrkel.NewRandomScalar()
			s.FromUniformBytes(r.Bytes(64))
			R, _ := schnorrkel.NewRandomElement()
			R.ScalarBaseMult(s)
			sig := append(R.Encode(nil), s.Encode(nil)...)
			if mark {
				sig[63] |= 128
			}
			return sig
		}
		switch mode {
		case 14: // version 1, current scheme
			c(1, pk, msg, c29SrSign(kp, msg, r.Bytes(64), false, true))
		case 15: // version 1, schnorrkel 0.1.1 signature
			c(1, pk, msg, c29SrSign(kp, msg, r.Bytes(64), true, false))
		case 16: // version 1, tampered message (either scheme)
			old := r.Chance(1, 2)
			c(1, pk, tamper(msg), c29SrSign(kp, msg, r.Bytes(64), old, !old))
		case 17: // version 1, current scheme with the marker bit cleared
			c(1, pk, msg, c29SrSign(kp, msg, r.Bytes(64), false, false))
		case 18: // version 1, identity key, unmarked
			c(1, zero, msg, idSig(false))
		case 19:
			c(2, pk, msg, c29SrSign(kp, msg, r.Bytes(64), false, true))
		case 20:
			c(2, pk, tamper(msg), c29SrSign(kp, msg, r.Bytes(64), false, true))
		case 21: // version 2, identity key: R = s*B
			c(2, zero, msg, idSig(true))
		case 22: // version 2, identity key, forged (R is some other point)
			sig := idSig(true)
			copy(sig[:32], pk)
			c(2, zero, msg, sig)
		case 23: // version 2, current scheme with the marker bit cleared
			c(2, pk, msg, c29SrSign(kp, msg, r.Bytes(64), false, false))
		default: // version 2, schnorrkel 0.1.1 signature (no marker bit)
			c(2, pk, msg, c29SrSign(kp, msg, r.Bytes(64), true, false))
		}
	}
}

func c29HostGen(r *vu.RNG, n int, emit func(string)) {
	h := vu.Hex
	for _, l := range c29HostLens {
		b := make([]byte, l)
		for i := range b {
			b[i] = byte(i*7 + 3)
		}
		emit("hhash " + h(b))
	}
	for mode := 1; mode < c29HostModes; mode++ {
		c29HostCase(r, mode, emit)
	}
	for i := 0; i < n; i++ {
		if r.Chance(1, 3) {
			c29HostCase(r, 0, emit)
		} else {
			c29HostCase(r, 1+r.Intn(c29HostModes-1), emit)
		}
	}
}

// c29Int computes n - s on 32-byte big-endian strings (n = group order).
type c29Int struct{}

var c29Order = []byte{0xff, 0xff, 0xff, 0xff, 0xff, 0xff, 0xff, 0xff, 0xff, 0xff, 0xff, 0xff, 0xff, 0xff, 0xff, 0xfe,
	0xba, 0xae, 0xdc, 0xe6, 0xaf, 0x48, 0xa0, 0x3b, 0xbf, 0xd2, 0x5e, 0x8c, 0xd0, 0x36, 0x41, 0x41}

// addOrder computes s + n (s small enough not to overflow 32 bytes)
func (*c29Int) addOrder(s []byte) []byte {
	out := make([]byte, 32)
	carry := 0
	for i := 31; i >= 0; i-- {
		v := int(c29Order[i]) + int(s[i]) + carry
		out[i] = byte(v)
		carry = v >> 8
	}
	return out
}

func (*c29Int) sub(s []byte) []byte {
	out := make([]byte, 32)
	borrow := 0
	for i := 31; i >= 0; i-- {
		v := int(c29Order[i]) - int(s[i]) - borrow
		if v < 0 {
			v += 256
			borrow = 1
		} else {
			borrow = 0
		}
		out[i] = byte(v)
	}
	return out
}

func TestVerifC29Host(t *testing.T) { vu.Run(t, "C29", 60, c29HostGen, c29HostRun) }
