// C29 correspondence harness for the hashing / crypto host functions of
// lib/runtime/wazero/imports.go (injected into package wazero_runtime).
//
// The host functions are called directly with a real wazero api.Module (a minimal Wasm binary that
// only exports a 64-page memory, as the C10 harness does) and a context carrying a runtime.Context
// with a fresh FreeingBumpHeapAllocator and a signature verifier that is not started.
//
// inputs (hex fields):
//   hhash  <message>                  the seven ext_hashing_*_version_1 functions
//   hed    <key32> <message> <sig64>  ext_crypto_ed25519_verify_version_1
//   hecdsa <key33> <message> <sig65>  ext_crypto_ecdsa_verify_version_2 (the guest buffer holds the
//                                     65-byte signature Substrate passes; gossamer reads 64 bytes)
//   hrec   <msg32> <sig65>            ext_crypto_secp256k1_ecdsa_recover_version_1 and _version_2
//   hrecc  <msg32> <sig65>            ext_crypto_secp256k1_ecdsa_recover_compressed_version_1 and _2
// observed:
//   hhash  -> <blake2_128> <blake2_256> <twox_64> <twox_128> <twox_256> <keccak_256> <sha2_256>
//   hed, hecdsa -> 0 | 1
//   hrec*  -> <key hex> | err     (SCALE Result: first byte 0 = Ok followed by the key; otherwise err;
//                                  "differ" if version 1 and 2 disagree)
package wazero_runtime

import (
	"context"
	"strings"
	"sync"
	"testing"

	vu "github.com/ChainSafe/gossamer/internal/verifutil"
	"github.com/ChainSafe/gossamer/lib/common"
	"github.com/ChainSafe/gossamer/lib/crypto"
	"github.com/ChainSafe/gossamer/lib/runtime"
	"github.com/ChainSafe/gossamer/lib/runtime/allocator"
	stded "crypto/ed25519"
	ethcrypto "github.com/ethereum/go-ethereum/crypto"
	"github.com/tetratelabs/wazero"
	"github.com/tetratelabs/wazero/api"
)

// (module (memory (export "memory") 64))
var c29Wasm = []byte{
	0x00, 0x61, 0x73, 0x6d, 0x01, 0x00, 0x00, 0x00,
	0x05, 0x03, 0x01, 0x00, 0x40,
	0x07, 0x0a, 0x01, 0x06, 'm', 'e', 'm', 'o', 'r', 'y', 0x02, 0x00,
}

var (
	c29Once sync.Once
	c29Mod  api.Module
	c29Err  error
)

func c29Module() (api.Module, error) {
	c29Once.Do(func() {
		ctx := context.Background()
		rt := wazero.NewRuntime(ctx)
		c29Mod, c29Err = rt.Instantiate(ctx, c29Wasm)
	})
	return c29Mod, c29Err
}

type c29Erroer struct{}

func (c29Erroer) Errorf(string, ...interface{}) {}

// c29Place writes the buffers one after another from address 16 and returns their addresses and a
// context whose allocator starts behind them.
func c29Place(m api.Module, bufs ...[]byte) ([]uint32, context.Context, bool) {
	ptrs := make([]uint32, len(bufs))
	p := uint32(16)
	for i, b := range bufs {
		ptrs[i] = p
		if !m.Memory().Write(p, b) {
			return nil, nil, false
		}
		p += uint32(len(b)) + 8
	}
	heapBase := (p + 64) &^ 7
	rtCtx := &runtime.Context{
		Allocator:   allocator.NewFreeingBumpHeapAllocator(heapBase),
		SigVerifier: crypto.NewSignatureVerifier(c29Erroer{}),
	}
	return ptrs, context.WithValue(context.Background(), runtimeContextKey, rtCtx), true
}

func c29HostRun(in string) string {
	f := strings.Split(in, " ")
	m, err := c29Module()
	if err != nil {
		return "err:module"
	}
	switch {
	case f[0] == "hhash" && len(f) == 2:
		data := vu.UnHex(f[1])
		fns := []struct {
			fn func(context.Context, api.Module, uint64) uint32
			n  uint32
		}{
			{ext_hashing_blake2_128_version_1, 16}, {ext_hashing_blake2_256_version_1, 32},
			{ext_hashing_twox_64_version_1, 8}, {ext_hashing_twox_128_version_1, 16},
			{ext_hashing_twox_256_version_1, 32}, {ext_hashing_keccak_256_version_1, 32},
			{ext_hashing_sha2_256_version_1, 32},
		}
		out := make([]string, 0, len(fns))
		for _, h := range fns {
			ptrs, ctx, ok := c29Place(m, data)
			if !ok {
				return "err:memwrite"
			}
			p := h.fn(ctx, m, newPointerSize(ptrs[0], uint32(len(data))))
			if p == 0 {
				out = append(out, "err")
				continue
			}
			b, ok := m.Memory().Read(p, uint64(h.n))
			if !ok {
				return "err:memread"
			}
			out = append(out, vu.Hex(b))
		}
		return strings.Join(out, " ")
	case f[0] == "hed" && len(f) == 4:
		pk, msg, sig := vu.UnHex(f[1]), vu.UnHex(f[2]), vu.UnHex(f[3])
		if len(pk) != 32 || len(sig) != 64 {
			return "err:badinput"
		}
		ptrs, ctx, ok := c29Place(m, sig, msg, pk)
		if !ok {
			return "err:memwrite"
		}
		return vu.X(uint64(ext_crypto_ed25519_verify_version_1(ctx, m, ptrs[0], newPointerSize(ptrs[1], uint32(len(msg))), ptrs[2])))
	case f[0] == "hecdsa" && len(f) == 4:
		pk, msg, sig := vu.UnHex(f[1]), vu.UnHex(f[2]), vu.UnHex(f[3])
		if len(pk) != 33 || len(sig) != 65 {
			return "err:badinput"
		}
		ptrs, ctx, ok := c29Place(m, sig, msg, pk)
		if !ok {
			return "err:memwrite"
		}
		return vu.X(uint64(ext_crypto_ecdsa_verify_version_2(ctx, m, ptrs[0], newPointerSize(ptrs[1], uint32(len(msg))), ptrs[2])))
	case (f[0] == "hrec" || f[0] == "hrecc") && len(f) == 3:
		msg, sig := vu.UnHex(f[1]), vu.UnHex(f[2])
		if len(msg) != 32 || len(sig) != 65 {
			return "err:badinput"
		}
		keyLen := uint64(64)
		fns := []func(context.Context, api.Module, uint32, uint32) uint64{
			ext_crypto_secp256k1_ecdsa_recover_version_1, ext_crypto_secp256k1_ecdsa_recover_version_2}
		if f[0] == "hrecc" {
			keyLen = 33
			fns = []func(context.Context, api.Module, uint32, uint32) uint64{
				ext_crypto_secp256k1_ecdsa_recover_compressed_version_1, ext_crypto_secp256k1_ecdsa_recover_compressed_version_2}
		}
		var res []string
		for _, fn := range fns {
			ptrs, ctx, ok := c29Place(m, sig, msg)
			if !ok {
				return "err:memwrite"
			}
			ret := fn(ctx, m, ptrs[0], ptrs[1])
			p, n := splitPointerSize(ret)
			b, ok := m.Memory().Read(p, n)
			if !ok || len(b) == 0 {
				return "err:memread"
			}
			if b[0] == 0 && uint64(len(b)) == 1+keyLen {
				res = append(res, vu.Hex(b[1:]))
			} else if b[0] == 0 {
				res = append(res, "err:oklen")
			} else {
				res = append(res, "err")
			}
		}
		if res[0] != res[1] {
			return "differ"
		}
		return res[0]
	}
	return "err:badinput"
}

var c29HostLens = []int{0, 1, 31, 32, 63, 64, 127, 128, 129, 135, 136, 137, 255, 256, 300}

func c29HostGen(r *vu.RNG, n int, emit func(string)) {
	h := vu.Hex
	for _, l := range c29HostLens {
		b := make([]byte, l)
		for i := range b {
			b[i] = byte(i*7 + 3)
		}
		emit("hhash " + h(b))
	}
	for i := 0; i < n; i++ {
		switch r.Intn(10) {
		case 0, 1, 2, 3: // hashes
			l := c29HostLens[r.Intn(len(c29HostLens))]
			if r.Chance(1, 2) {
				l = r.Intn(400)
			}
			emit("hhash " + h(r.Bytes(l)))
		case 4: // ed25519
			priv := stded.NewKeyFromSeed(r.Bytes(32))
			pk := []byte(priv.Public().(stded.PublicKey))
			msg := r.Bytes(r.Intn(100))
			sig := stded.Sign(priv, msg)
			if r.Chance(1, 3) {
				sig[r.Intn(64)] ^= 1 << uint(r.Intn(8))
			}
			emit("hed " + h(pk) + " " + h(msg) + " " + h(sig))
		default: // secp256k1
			d := r.Bytes(32)
			d[0] &= 0x7f
			d[31] |= 1
			priv, err := ethcrypto.ToECDSA(d)
			if err != nil {
				continue
			}
			msg := r.Bytes(r.Intn(100))
			hash, _ := common.Blake2bHash(msg)
			sig, err := ethcrypto.Sign(hash[:], priv)
			if err != nil {
				continue
			}
			cpk := ethcrypto.CompressPubkey(&priv.PublicKey)
			flip := func() []byte { // high-S twin with the flipped recovery id
				s := new(c29Int).sub(sig[32:64])
				return append(append(append([]byte{}, sig[:32]...), s...), sig[64]^1)
			}
			switch r.Intn(9) {
			case 0, 1:
				emit("hecdsa " + h(cpk) + " " + h(msg) + " " + h(sig))
			case 2: // wrong recovery id: Substrate recovers another key
				s2 := append([]byte{}, sig...)
				s2[64] ^= 1
				emit("hecdsa " + h(cpk) + " " + h(msg) + " " + h(s2))
			case 3: // high S with the matching id: valid for Substrate
				emit("hecdsa " + h(cpk) + " " + h(msg) + " " + h(flip()))
			case 4: // tampered
				s2 := append([]byte{}, sig...)
				s2[r.Intn(64)] ^= 1 << uint(r.Intn(8))
				emit("hecdsa " + h(cpk) + " " + h(msg) + " " + h(s2))
			case 5:
				s2 := append([]byte{}, sig...)
				if r.Chance(1, 2) {
					s2[64] += 27
				}
				emit("hrec " + h(hash[:]) + " " + h(s2))
			case 6:
				emit("hrecc " + h(hash[:]) + " " + h(sig))
			case 7:
				emit("hrec " + h(hash[:]) + " " + h(flip()))
			default:
				s2 := r.Bytes(65)
				s2[64] = byte(r.Intn(6))
				emit("hrecc " + h(hash[:]) + " " + h(s2))
			}
		}
	}
}

// c29Int computes n - s on 32-byte big-endian strings (n = group order).
type c29Int struct{}

var c29Order = []byte{0xff, 0xff, 0xff, 0xff, 0xff, 0xff, 0xff, 0xff, 0xff, 0xff, 0xff, 0xff, 0xff, 0xff, 0xff, 0xfe,
	0xba, 0xae, 0xdc, 0xe6, 0xaf, 0x48, 0xa0, 0x3b, 0xbf, 0xd2, 0x5e, 0x8c, 0xd0, 0x36, 0x41, 0x41}

func (*c29Int) sub(s []byte) []byte {
	out := make([]byte, 32)
	borrow := 0
	for i := 31; i >= 0; i-- {
		v := int(c29Order[i]) - int(s[i]) - borrow
		if v < 0 {
			v += 256
			borrow = 1
		} else {
			borrow = 0
		}
		out[i] = byte(v)
	}
	return out
}

func TestVerifC29Host(t *testing.T) { vu.Run(t, "C29", 60, c29HostGen, c29HostRun) }
