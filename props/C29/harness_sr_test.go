// C29 correspondence harness for lib/crypto/sr25519 (injected into package sr25519).
//
// inputs (hex fields):
//   sr    <public key> <message> <signature>   VerifySignature(publicKey, signature, message)
//   srdep <public key> <message> <signature>   NewPublicKey(key) then VerifyDeprecated(msg, sig)
// observed:  ok | fail | err     (nil / ErrSignatureVerificationFailed resp. (false, nil) /
//                                 any other error)
//
// Signatures are made here with a deterministic nonce (go-schnorrkel's Sign draws it from
// crypto/rand), under the current scheme (signing context, labels sign:pk / sign:R / sign:c) and
// under the schnorrkel 0.1.1 scheme (Transcript::new("substrate"), labels pk / no / ""), using only
// values returned by go-schnorrkel (no direct import of ristretto255: it is an indirect dependency
// of the unpatched module and `go test -mod=mod` would rewrite go.mod).
// Published vectors (sp_core unit tests, sr25519-crust) come from corpus/C29/sr.txt.
package sr25519

import (
	"errors"
	"strings"
	"testing"

	schnorrkel "github.com/ChainSafe/go-schnorrkel"
	vu "github.com/ChainSafe/gossamer/internal/verifutil"
	"github.com/ChainSafe/gossamer/lib/crypto"
	"github.com/gtank/merlin"
)

// c29SrSign signs msg with the secret scalar of kp and the nonce derived from nonce64.
// old = schnorrkel 0.1.1 transcript and labels; the marker bit is set iff mark.
func c29SrSign(kp *Keypair, msg, nonce64 []byte, old, mark bool) []byte {
	x, err := schnorrkel.ScalarFromBytes(kp.private.key.Encode())
	if err != nil {
		panic(err)
	}
	r, _ := schnorrkel.NewRandomScalar()
	r.FromUniformBytes(nonce64)
	R, _ := schnorrkel.NewRandomElement()
	R.ScalarBaseMult(r)
	rEnc := R.Encode(nil)
	pk := kp.public.Encode()
	var t *merlin.Transcript
	lpk, lr, lc := "sign:pk", "sign:R", "sign:c"
	if old {
		t = merlin.NewTranscript("substrate")
		t.AppendMessage([]byte("sign-bytes"), msg)
		lpk, lr, lc = "pk", "no", ""
	} else {
		t = schnorrkel.NewSigningContext(SigningContext, msg)
	}
	t.AppendMessage([]byte("proto-name"), []byte("Schnorr-sig"))
	t.AppendMessage([]byte(lpk), pk)
	t.AppendMessage([]byte(lr), rEnc)
	k, _ := schnorrkel.NewRandomScalar()
	k.FromUniformBytes(t.ExtractBytes([]byte(lc), 64))
	s := k.Multiply(k, x).Add(k, r)
	sig := append(append([]byte{}, rEnc...), s.Encode(nil)...)
	if mark {
		sig[63] |= 128
	}
	return sig
}

// c29SrBaseMult returns the encoding of s*B and s for the scalar derived from b64.
func c29SrBaseMult(b64 []byte) (rEnc, sEnc []byte) {
	s, _ := schnorrkel.NewRandomScalar()
	s.FromUniformBytes(b64)
	R, _ := schnorrkel.NewRandomElement()
	R.ScalarBaseMult(s)
	return R.Encode(nil), s.Encode(nil)
}

// encodings that are not ristretto255 elements (RFC 9496 A.2/A.3: non-canonical, negative,
// non-square, negative xy, y = 0)
var c29SrBadPoints = []string{
	"00ffffffffffffffffffffffffffffffffffffffffffffffffffffffffffffff",
	"edffffffffffffffffffffffffffffffffffffffffffffffffffffffffffff7f",
	"0100000000000000000000000000000000000000000000000000000000000000",
	"ed57ffd8c914fb201471d1c3d245ce3c746fcbe63a3679d51b6a516ebebe0e20",
	"26948d35ca62e643e26a83177332e6b6afeb9d08e4268b650f1f5bbd8d81d371",
	"3eb858e78f5a7254d8c9731174a94f76755fd3941c0ac93735c07ba14579630e",
	"ecffffffffffffffffffffffffffffffffffffffffffffffffffffffffffff7f",
}

// group order L, little-endian
var c29SrL = vu.UnHex("edd3f55c1a631258d69cf7a2def9de1400000000000000000000000000000010")

func c29SrAddL(s []byte) []byte {
	out := make([]byte, 32)
	carry := 0
	for i := 0; i < 32; i++ {
		v := int(s[i]) + int(c29SrL[i]) + carry
		out[i] = byte(v)
		carry = v >> 8
	}
	return out
}

var c29SrLens = []int{0, 1, 9, 31, 32, 63, 100, 101, 102, 165, 166, 167, 300}

func c29SrGen(r *vu.RNG, n int, emit func(string)) {
	h := vu.Hex
	both := func(pk, msg, sig []byte) {
		emit("sr " + h(pk) + " " + h(msg) + " " + h(sig))
		emit("srdep " + h(pk) + " " + h(msg) + " " + h(sig))
	}
	one := func(dep bool, pk, msg, sig []byte) {
		if dep {
			emit("srdep " + h(pk) + " " + h(msg) + " " + h(sig))
		} else {
			emit("sr " + h(pk) + " " + h(msg) + " " + h(sig))
		}
	}
	zeroPk := make([]byte, 32)
	// fixed cases: one of every class the verifiers distinguish
	{
		kp, _ := NewKeypairFromSeed(r.Bytes(32))
		pk := kp.public.Encode()
		msg := []byte("C29 sr25519")
		cur := c29SrSign(kp, msg, r.Bytes(64), false, true)
		old := c29SrSign(kp, msg, r.Bytes(64), true, false)
		both(pk, msg, cur) // honest, current scheme
		one(true, pk, msg, old) // honest schnorrkel 0.1.1 signature
		unmarked := append([]byte{}, cur...)
		unmarked[63] &= 127
		both(pk, msg, unmarked) // current scheme with the marker bit cleared
		oldMarked := append([]byte{}, old...)
		oldMarked[63] |= 128
		one(true, pk, msg, oldMarked) // pre-audit signature with the marker bit set
		one(true, pk, append([]byte("x"), msg...), old) // pre-audit, other message
		one(false, pk, append([]byte("x"), msg...), cur)
		// the identity key: R = s*B verifies for every message; any other R does not
		rEnc, sEnc := c29SrBaseMult(r.Bytes(64))
		idSig := append(append([]byte{}, rEnc...), sEnc...)
		idSig[63] |= 128
		both(zeroPk, msg, idSig)
		allZero := make([]byte, 64)
		allZero[63] = 128
		one(false, zeroPk, msg, allZero)
		forged := append([]byte{}, idSig...)
		copy(forged[:32], pk)
		one(false, zeroPk, msg, forged)
		idOld := append([]byte{}, idSig...)
		idOld[63] &= 127
		one(true, zeroPk, msg, idOld)
	}
	for i := 0; i < n; i++ {
		kp, err := NewKeypairFromSeed(r.Bytes(32))
		if err != nil {
			continue
		}
		pk := kp.public.Encode()
		var msg []byte
		if r.Chance(1, 2) {
			msg = r.Bytes(c29SrLens[r.Intn(len(c29SrLens))])
		} else {
			msg = r.Bytes(r.Intn(200))
		}
		old := r.Chance(1, 3)
		dep := old || r.Chance(1, 3)
		sig := c29SrSign(kp, msg, r.Bytes(64), old, !old)
		switch r.Intn(12) {
		case 0, 1, 2:
			one(dep, pk, msg, sig)
		case 3: // message tampered
			m2 := append([]byte{}, msg...)
			if len(m2) == 0 {
				m2 = []byte{0}
			} else {
				m2[r.Intn(len(m2))] ^= 1 << uint(r.Intn(8))
			}
			one(dep, pk, m2, sig)
		case 4: // R tampered (mostly not an encoding any more)
			s2 := append([]byte{}, sig...)
			s2[r.Intn(32)] ^= 1 << uint(r.Intn(8))
			one(dep, pk, msg, s2)
		case 5: // s tampered
			s2 := append([]byte{}, sig...)
			s2[32+r.Intn(31)] ^= 1 << uint(r.Intn(8))
			one(dep, pk, msg, s2)
		case 6: // marker bit flipped
			s2 := append([]byte{}, sig...)
			s2[63] ^= 128
			both(pk, msg, s2)
		case 7: // s + L: same residue, not canonical
			s2 := append([]byte{}, sig...)
			s2[63] &= 127
			copy(s2[32:], c29SrAddL(s2[32:]))
			if !old {
				s2[63] |= 128
			}
			one(dep, pk, msg, s2)
		case 8: // another key / invalid key encodings
			if r.Chance(1, 2) {
				kp2, _ := NewKeypairFromSeed(r.Bytes(32))
				one(dep, kp2.public.Encode(), msg, sig)
			} else {
				one(dep, vu.UnHex(c29SrBadPoints[r.Intn(len(c29SrBadPoints))]), msg, sig)
			}
		case 9: // R replaced by an invalid encoding / by another valid point
			s2 := append([]byte{}, sig...)
			if r.Chance(1, 2) {
				copy(s2[:32], vu.UnHex(c29SrBadPoints[r.Intn(len(c29SrBadPoints))]))
			} else {
				copy(s2[:32], pk)
			}
			one(dep, pk, msg, s2)
		case 10: // wrong lengths
			switch r.Intn(4) {
			case 0:
				one(dep, pk, msg, sig[:r.Intn(64)])
			case 1:
				one(dep, pk, msg, append(append([]byte{}, sig...), r.Bytes(1+r.Intn(3))...))
			case 2:
				one(dep, pk[:r.Intn(32)], msg, sig)
			default:
				one(dep, append(append([]byte{}, pk...), 0), msg, sig)
			}
		default: // identity key with a random scalar; random bytes
			if r.Chance(1, 2) {
				rEnc, sEnc := c29SrBaseMult(r.Bytes(64))
				s2 := append(append([]byte{}, rEnc...), sEnc...)
				if !old {
					s2[63] |= 128
				}
				one(dep, zeroPk, msg, s2)
			} else {
				one(dep, r.Bytes(32), msg, r.Bytes(64))
			}
		}
	}
}

func c29SrVerdict(ok bool, err error) string {
	switch {
	case err == nil && ok:
		return "ok"
	case err == nil || errors.Is(err, crypto.ErrSignatureVerificationFailed):
		return "fail"
	default:
		return "err"
	}
}

func c29SrRun(in string) string {
	f := strings.Split(in, " ")
	if len(f) != 4 {
		return "err:badinput"
	}
	pk, msg, sig := vu.UnHex(f[1]), vu.UnHex(f[2]), vu.UnHex(f[3])
	switch f[0] {
	case "sr":
		err := VerifySignature(pk, sig, msg)
		return c29SrVerdict(err == nil, err)
	case "srdep":
		pub, err := NewPublicKey(pk)
		if err != nil {
			return "err"
		}
		return c29SrVerdict(pub.VerifyDeprecated(msg, sig))
	}
	return "err:badinput"
}

func TestVerifC29Sr(t *testing.T) { vu.Run(t, "C29", 12, c29SrGen, c29SrRun) }
