// C27 correspondence harness (injected into package dot/state by `go test -overlay`).
//
// input  (numbers in hex):  seq <now>,<slot>,<hdr>,<signer> <now>,<slot>,<hdr>,<signer> ...
//   one fresh SlotState on an in-memory DB; the checks are applied in order.
//   <hdr> is a small header id (the harness builds a distinct header per id), <signer> a small
//   authority id.
// observed: one token per check, then the final database content:
//   n                          no proof, no error
//   p:<slot>,<signer>,<first hdr id>,<second hdr id>     equivocation proof
//   e                          error return
//   start:<first saved slot|->
//   db:<slot>=<hdr>.<signer>+<hdr>.<signer>;<slot>=...   (slots ascending) or db:-
//   raw:<slot>=<FNV-1a 64 of the stored SCALE bytes>;...  (same order) or raw:-   (third round: the
//       driver recomputes the bytes with the Gallina encoder Codec.stored_value)
package state

import (
	"bytes"
	"hash/fnv"
	"encoding/binary"
	"fmt"
	"sort"
	"strings"
	"testing"

	"github.com/ChainSafe/gossamer/dot/types"
	"github.com/ChainSafe/gossamer/internal/database"
	"github.com/ChainSafe/gossamer/lib/common"
	"github.com/ChainSafe/gossamer/pkg/scale"
	vu "github.com/ChainSafe/gossamer/internal/verifutil"
)

func c27Header(id uint64) *types.Header {
	h := types.NewEmptyHeader()
	h.Number = uint(id % 5)
	var ph [32]byte
	binary.LittleEndian.PutUint64(ph[:], id+1)
	h.ParentHash = common.Hash(ph)
	if id%2 == 1 { // exercise the digest codec inside the stored records
		h.Digest.Add(types.PreRuntimeDigest{ConsensusEngineID: types.BabeEngineID, Data: []byte{byte(id), 1, 2}})
	}
	if id%3 == 2 {
		h.Digest.Add(types.SealDigest{ConsensusEngineID: types.BabeEngineID, Data: bytes.Repeat([]byte{byte(id)}, 64)})
	}
	return h
}

func c27Signer(id uint64) types.AuthorityID {
	var a types.AuthorityID
	binary.LittleEndian.PutUint64(a[:], id+0x100)
	a[31] = 0xaa
	return a
}

func c27Gen(r *vu.RNG, n int, emit func(string)) {
	deltas := []int64{0, 0, 1, 1, 2, 5, 999, 1000, 1001, 1999, 2000, 2001, 3000}
	dists := []int64{0, 0, 0, 1, 1, 2, 999, 1000, 1001, 1999, 2000, 2001}
	bases := []uint64{0, 3, 998, 1500, 2500, 1000000, 1 << 40, ^uint64(0) - 70000}
	for i := 0; i < n; i++ {
		mode := r.Intn(10) // 0..6 sequential, 7..9 chaotic (time goes back, future headers)
		now := bases[r.Intn(len(bases))] + uint64(r.Intn(3))
		length := 2 + r.Intn(30)
		nsign := 1 + r.Intn(3)
		nhdr := 2 + r.Intn(3)
		var used []uint64
		var sb strings.Builder
		sb.WriteString("seq")
		for j := 0; j < length; j++ {
			d := deltas[r.Intn(len(deltas))]
			if r.Chance(1, 2) {
				d = int64(r.Intn(3))
			}
			if mode >= 7 && r.Chance(1, 4) {
				back := uint64([]int64{1, 2, 999, 1000, 1001, 2000, 2500}[r.Intn(7)])
				if now >= back {
					now -= back
				}
			} else if now <= ^uint64(0)-uint64(d) {
				now += uint64(d)
			}
			var slot uint64
			switch {
			case len(used) > 0 && r.Chance(1, 2):
				slot = used[r.Intn(len(used))]
			case mode >= 7 && r.Chance(1, 5) && now < ^uint64(0)-2000: // header from the future
				slot = now + uint64([]int64{1, 2, 1000, 1001}[r.Intn(4)])
			default:
				dd := uint64(dists[r.Intn(len(dists))])
				if now >= dd {
					slot = now - dd
				} else {
					slot = 0
				}
			}
			if mode < 7 && slot > now {
				slot = now
			}
			used = append(used, slot)
			fmt.Fprintf(&sb, " %s,%s,%s,%s", vu.X(now), vu.X(slot), vu.X(uint64(r.Intn(nhdr))), vu.X(uint64(r.Intn(nsign))))
		}
		emit(sb.String())
	}
}

func c27Run(in string) string {
	f := strings.Split(in, " ")
	if f[0] != "seq" {
		return "err:badinput"
	}
	db, err := database.NewPebble("", true)
	if err != nil {
		return "err:db"
	}
	defer db.Close()
	ss := NewSlotState(db)
	ids := map[common.Hash]uint64{}
	sids := map[types.AuthorityID]uint64{}
	var out []string
	for _, c := range f[1:] {
		p := strings.Split(c, ",")
		now, slot, hid, sid := vu.UnX(p[0]), vu.UnX(p[1]), vu.UnX(p[2]), vu.UnX(p[3])
		hdr := c27Header(hid)
		ids[hdr.Hash()] = hid
		sg := c27Signer(sid)
		sids[sg] = sid
		proof, err := ss.CheckEquivocation(now, slot, c27Header(hid), sg)
		switch {
		case err != nil:
			out = append(out, "e")
		case proof == nil:
			out = append(out, "n")
		default:
			h1, ok1 := ids[proof.FirstHeader.Hash()]
			h2, ok2 := ids[proof.SecondHeader.Hash()]
			of, ok3 := sids[proof.Offender]
			if !ok1 || !ok2 || !ok3 {
				out = append(out, "p:unknown")
			} else {
				out = append(out, fmt.Sprintf("p:%s,%s,%s,%s", vu.X(proof.Slot), vu.X(of), vu.X(h1), vu.X(h2)))
			}
		}
	}
	// final database content
	start := "-"
	if v, err := ss.db.Get(slotHeaderStartKey); err == nil && len(v) == 8 {
		start = vu.X(binary.LittleEndian.Uint64(v))
	}
	out = append(out, "start:"+start)
	type ent struct {
		slot uint64
		s    string
	}
	var ents, raws []ent
	it, err := ss.db.NewPrefixIterator(slotHeaderMapKey)
	if err != nil {
		return "err:iter"
	}
	for ok := it.First(); ok && it.Valid(); ok = it.Next() {
		k := it.Key()
		if len(k) < 8 {
			return "err:key"
		}
		slot := binary.LittleEndian.Uint64(k[len(k)-8:])
		var encs [][]byte
		if err := scale.Unmarshal(it.Value(), &encs); err != nil {
			return "err:val"
		}
		var parts []string
		for _, e := range encs {
			hs := headerAndSigner{Header: types.NewEmptyHeader()}
			if err := scale.Unmarshal(e, &hs); err != nil {
				return "err:val2"
			}
			h, ok1 := ids[hs.Header.Hash()]
			s, ok2 := sids[hs.Signer]
			if !ok1 || !ok2 {
				parts = append(parts, "?")
			} else {
				parts = append(parts, vu.X(h)+"."+vu.X(s))
			}
		}
		hh := fnv.New64a()
		hh.Write(it.Value())
		raws = append(raws, ent{slot, vu.X(slot) + "=" + vu.X(hh.Sum64())})
		ents = append(ents, ent{slot, vu.X(slot) + "=" + strings.Join(parts, "+")})
	}
	it.Release()
	sort.Slice(ents, func(i, j int) bool { return ents[i].slot < ents[j].slot })
	sort.Slice(raws, func(i, j int) bool { return raws[i].slot < raws[j].slot })
	rawTok := "raw:-"
	if len(raws) > 0 {
		rs := make([]string, len(raws))
		for i, e := range raws {
			rs[i] = e.s
		}
		rawTok = "raw:" + strings.Join(rs, ";")
	}
	if len(ents) == 0 {
		out = append(out, "db:-", rawTok)
	} else {
		ss := make([]string, len(ents))
		for i, e := range ents {
			ss[i] = e.s
		}
		out = append(out, "db:"+strings.Join(ss, ";"), rawTok)
	}
	return strings.Join(out, " ")
}

func TestVerifC27(t *testing.T) { vu.Run(t, "C27", 2000, c27Gen, c27Run) }
