(* C27 driver: replays a check sequence on the extracted model of CheckEquivocation and
   evaluates the property predicates of Properties.v on the implementation's answers:
     - proof_sound  (every history): a proof names the checked slot/signer/header and a
       different header that an earlier check presented for the same slot and signer;
     - expected     (sequential histories: current slot monotone, no header from the future):
       the answer is exactly `expected history check`  (C27_exact_sequential);
     - spec_answers (EVERY history, also chaotic ones): the answers are exactly those of the
       window specification Model.a_step (C27_window_spec). *)
open Model
open Vutil

let parse_chk s = match String.split_on_char ',' s with
  | [a; b; c; d] -> { c_now = n_of_hex a; c_slot = n_of_hex b; c_hdr = n_of_hex c; c_signer = n_of_hex d }
  | _ -> fail "bad check %s" s

let str_out = function
  | None -> "n"
  | Some p -> Printf.sprintf "p:%s,%s,%s,%s" (hex_of_n p.p_slot) (hex_of_n p.p_offender) (hex_of_n p.p_first) (hex_of_n p.p_second)

let parse_out s =
  if s = "n" then Some None
  else if String.length s > 2 && String.sub s 0 2 = "p:" then
    (match String.split_on_char ',' (String.sub s 2 (String.length s - 2)) with
     | [a; b; c; d] -> Some (Some { p_slot = n_of_hex a; p_offender = n_of_hex b; p_first = n_of_hex c; p_second = n_of_hex d })
     | _ -> None)
  else None

let cmp_n a b = compare (int_of_n a) (int_of_n b)  (* only used for ordering dump entries *)
let n_lt a b = (* exact comparison on N via hex strings of equal length *)
  let x = hex_of_n a and y = hex_of_n b in
  if String.length x <> String.length y then String.length x < String.length y else x < y

let dump_db (s : st) =
  let ents = List.filter (fun (_, v) -> true) s.recs in
  let ents = List.sort (fun (a, _) (b, _) -> if a = b then 0 else if n_lt a b then -1 else 1) ents in
  if ents = [] then "db:-" else
  "db:" ^ String.concat ";" (List.map (fun (k, v) ->
    hex_of_n k ^ "=" ^ String.concat "+" (List.map (fun (h, sg) -> hex_of_n h ^ "." ^ hex_of_n sg) v)) ents)

(* third round: the stored SCALE bytes of every slot, recomputed with the Gallina encoder
   (Codec.stored_value) and hashed like the harness does (FNV-1a 64); the Gallina decoder must give
   the records back (C27_stored_round_trip, re-checked here on the extracted code) *)
let fnv64 (l : byte list) : string =
  let h = ref 0xcbf29ce484222325L in
  List.iter (fun b -> h := Int64.mul (Int64.logxor !h (Int64.of_int (int_of_byte b))) 0x100000001b3L) l;
  Printf.sprintf "%Lx" !h
let dump_raw (s : st) =
  let ents = List.sort (fun (a, _) (b, _) -> if a = b then 0 else if n_lt a b then -1 else 1) s.recs in
  if ents = [] then "raw:-" else
  "raw:" ^ String.concat ";" (List.map (fun (k, v) ->
    let bytes = stored_value v in
    (match dec_stored bytes with
     | Some rs when rs = List.map mk_record v -> ()
     | _ -> fail "C27: the extracted decoder does not invert the encoder on slot %s" (hex_of_n k));
    hex_of_n k ^ "=" ^ fnv64 bytes) ents)

let check inp obs =
  match split_ws inp with
  | "seq" :: cs ->
    let cs = List.map parse_chk cs in
    let (sf, outs) = run init cs in
    let model = String.concat " " (List.map str_out outs
      @ ["start:" ^ (match sf.start with None -> "-" | Some f -> hex_of_n f); dump_db sf; dump_raw sf]) in
    let otoks = split_ws obs in
    let n = List.length cs in
    (* property predicates on the implementation's answers *)
    let why = ref [] in
    let tags = Hashtbl.create 8 in
    let tag t = Hashtbl.replace tags t () in
    let nontrivial = ref false in
    if List.length otoks <> n + 3 then why := ["shape"] else begin
      let seq = sequential cs in
      (* window specification on the implementation's answers, every history *)
      let sa = spec_answers cs in
      List.iteri (fun i (t, e) ->
        match parse_out t with
        | Some o when o = e -> ()
        | _ -> why := (Printf.sprintf "check%d:window-spec=%s" i (str_out e)) :: !why)
        (List.combine (List.filteri (fun i _ -> i < n) otoks) sa);
      tag (if seq then "sequential" else "chaotic");
      (* walk: prefix history (in order), model state for coverage tags *)
      let rec go i hist_rev st cs toks =
        match cs, toks with
        | c :: cr, t :: tr ->
          let hist = List.rev hist_rev in
          (match parse_out t with
           | None -> why := (Printf.sprintf "check%d:unparsable(%s)" i t) :: !why
           | Some o ->
             if not (proof_sound hist c o) then why := (Printf.sprintf "check%d:unsound-proof" i) :: !why;
             if seq && o <> expected hist c then
               why := (Printf.sprintf "check%d:expected=%s" i (str_out (expected hist c))) :: !why;
             (match o with Some _ -> tag "proof" | None -> ()));
          (* coverage from the model side *)
          let w = in_window st c in
          if not w then begin
            if out_of_capacity c then tag "out-of-capacity" else tag "before-first-saved"
          end else begin
            (match retained st c.c_slot c.c_signer with
             | Some h -> nontrivial := true; if h = c.c_hdr then tag "duplicate" else tag "equivocation"
             | None -> tag "recorded");
            if first_hdr hist c.c_slot c.c_signer <> None && retained st c.c_slot c.c_signer = None
            then tag "recheck-after-prune-or-drop"
          end;
          let (st', _) = Model.check st c in
          (match st.start, st'.start with
           | Some a, Some b when a <> b -> tag "pruned"
           | _ -> ());
          go (i + 1) (c :: hist_rev) st' cr tr
        | _ -> () in
      go 0 [] init cs otoks
    end;
    let prop = (!why = []) in
    let eq = (model = obs) in
    { prop_ok = prop; model_eq = eq; nontrivial = !nontrivial; finding = "-";
      tags = String.concat "," (List.sort compare (Hashtbl.fold (fun k () a -> k :: a) tags []));
      detail = (if prop && eq then "" else
                Printf.sprintf "%s model=%s" (String.concat ";" (List.rev !why)) model) }
  | _ -> fail "C27: bad input %s" inp

(* vm_compute cross-check: answers, first saved slot and table recomputed inside Coq *)
let coq inp obs =
  match split_ws inp with
  | "seq" :: cs ->
    let cs = List.map parse_chk cs in
    let n = List.length cs in
    let otoks = split_ws obs in
    if List.length otoks <> n + 3 then None else begin
      let outs = List.filteri (fun i _ -> i < n) otoks in
      let st = List.nth otoks n and db = List.nth otoks (n + 1) in
      let strip p s = let l = String.length p in
        if String.length s >= l && String.sub s 0 l = p then Some (String.sub s l (String.length s - l)) else None in
      match strip "start:" st, strip "db:" db with
      | Some st, Some db when List.for_all (fun t -> parse_out t <> None) outs ->
        (try
          let chk c = Printf.sprintf "mkchk %s %s %s %s" (coq_n c.c_now) (coq_n c.c_slot) (coq_n c.c_hdr) (coq_n c.c_signer) in
          let out t = match parse_out t with
            | Some (Some p) -> Printf.sprintf "Some (mkproof %s %s %s %s)" (coq_n p.p_slot) (coq_n p.p_offender) (coq_n p.p_first) (coq_n p.p_second)
            | _ -> "None" in
          let ent e = match String.split_on_char '=' e with
            | [k; v] -> Printf.sprintf "(%s, [%s])" (coq_n (n_of_hex k))
                (String.concat "; " (List.map (fun hs -> match String.split_on_char '.' hs with
                   | [h; s] -> Printf.sprintf "(%s, %s)" (coq_n (n_of_hex h)) (coq_n (n_of_hex s))
                   | _ -> raise Exit) (String.split_on_char '+' v)))
            | _ -> raise Exit in
          Some (Printf.sprintf "vm_case [%s] [%s] %s [%s]"
            (String.concat "; " (List.map chk cs)) (String.concat "; " (List.map out outs))
            (if st = "-" then "None" else "(Some " ^ coq_n (n_of_hex st) ^ ")")
            (if db = "-" then "" else String.concat "; " (List.map ent (String.split_on_char ';' db))))
        with Exit -> None)
      | _ -> None
    end
  | _ -> None

let () = run_driver ~coq check
