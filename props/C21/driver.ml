(* C21 driver: replays every history of the Go trace on the extracted mirror C21.Model and
   evaluates the property predicates of C21.Spec on the implementation's answers.
     m/o ops  model_eq: error class and the stored votes/equivocators agree;
              prop   : a message the implementation accepted satisfies msg_ok (C21_filter)
     G, P     model_eq: same vote (when the Go result does not depend on map iteration order);
              prop   : when some block has > 2/3 of the prevotes (and the stored votes are clean and
                       tolerant) the answer is the spec ghost / the capped target
     B        model_eq only
     F        model_eq; prop: a finalised block satisfies finalise_ok *)
open Model
open Vutil

(* the model mirrors the repaired code (fixes/C21-vote-number-unchecked, C21-precommit-cap-wrong-fork,
   C21-ghost-misses-unvoted-fork-point): validateVote compares vote.Number with the header,
   determinePreCommit resolves the cap on the chain of the pre-voted block, getPossibleSelectedBlocks
   has the pairwise pass.  VERIF_C21_PREFIX=1 (debugging only) mirrors the first two as pinned. *)
let repaired = (Sys.getenv_opt "VERIF_C21_PREFIX" <> Some "1")
let check_number = repaired

let list_of s = if s = "-" || s = "" then [] else String.split_on_char ',' s
let nat_of_hex s = nat_of_int (int_of_string ("0x" ^ s))
let hex_of_nat x = Printf.sprintf "%x" (int_of_nat x)

let votes_str l =
  let l = List.sort (fun (a, _) (b, _) -> compare (int_of_nat a) (int_of_nat b)) l in
  if l = [] then "-" else
    String.concat "+" (List.map (fun (v, g) ->
      Printf.sprintf "%s.%s.%s" (hex_of_nat v) (hex_of_nat g.gv_block) (hex_of_n g.gv_num)) l)
let eqv_str l =
  let l = List.sort (fun (a, _) (b, _) -> compare (int_of_nat a) (int_of_nat b)) l in
  if l = [] then "-" else
    String.concat "+" (List.map (fun (v, k) -> Printf.sprintf "%s.%s" (hex_of_nat v) (hex_of_nat k)) l)
let snapshot st = String.concat "/" [votes_str st.s_pv; votes_str st.s_pc; eqv_str st.s_pv_eq; eqv_str st.s_pc_eq]

let gv_str g = Printf.sprintf "%s.%s" (hex_of_nat g.gv_block) (hex_of_n g.gv_num)
let out_str = function
  | Ok g -> gv_str g
  | Err c -> Printf.sprintf "e%x" (int_of_nat c)
  | Panic -> "panic"
  | OutOfFuel -> "outoffuel"

let parse_gv s = match String.split_on_char '.' s with
  | [b; n] when b <> "?" -> Some { gv_block = nat_of_hex b; gv_num = n_of_hex n }
  | _ -> None

(* the last deterministic selection query of the case (environment, mirror state, op, Go answer):
   what the vm_compute cross-check re-evaluates inside Coq *)
let last_query : (env * vstate * char * string) option ref = ref None

let check inp obs =
  match split_ws inp with
  | ["g"; ps; nv; self; head; best; nc; ops] ->
    let t = List.map nat_of_hex (list_of ps) in
    let k = List.length t + 1 in
    let e = { e_tree = t; e_voters = nat_of_hex nv; e_best = nat_of_hex best;
              e_next_change = (if nc = "-" then None else Some (n_of_hex nc)); e_self = nat_of_hex self } in
    let st = ref { s_pv = []; s_pc = []; s_pv_eq = []; s_pc_eq = []; s_head = nat_of_hex head } in
    let ops = list_of ops and obs_l = list_of obs in
    if List.length ops <> List.length obs_l then
      { prop_ok = false; model_eq = false; nontrivial = false; finding = "-"; tags = "shape"; detail = "observed " ^ obs }
    else begin
      let prop = ref true and eq = ref true and detail = ref "" and finding = ref "-" in
      let nontriv = ref false in
      let tags = Hashtbl.create 16 in
      let tag s = Hashtbl.replace tags s () in
      let fail_prop slug msg = prop := false; if !finding = "-" then finding := slug;
        if !detail = "" then detail := msg in
      let fail_eq msg = eq := false; if !detail = "" then detail := msg in
      let diverged = ref false in   (* after a disagreement the model state is no longer the Go state *)
      List.iteri (fun i (op, ob) ->
        if not !diverged then begin
        let stage_of c = match c with 'c' -> Precommit | 'q' -> PrimaryProposal | _ -> Prevote in
        match op.[0] with
        | 'm' ->
          (match String.split_on_char '.' (String.sub op 2 (String.length op - 2)) with
           | [v; b; delta; kind] ->
             let b = int_of_string ("0x" ^ b) in
             let blk = nat_of_int b in
             let d = int_of_z (z_of_hex delta) in
             let real = if b < k then int_of_nat (depth t blk) else 0 in
             let num = (real + d) land 0xffffffff in
             let kind = int_of_string ("0x" ^ kind) in
             let m = { m_round = (match kind with 3 -> RoundNext | 4 -> RoundPrevious | 5 -> RoundOutOfBounds | _ -> RoundCurrent);
                       m_setid_ok = (kind <> 2); m_stage = stage_of op.[1]; m_voter = nat_of_hex v;
                       m_sig_ok = (kind <> 1); m_vote = { gv_block = blk; gv_num = n_of_int num } } in
             let okmsg = msg_ok e !st m in
             let (c, st') = validate_vote_message check_number e !st m in
             let expect = Printf.sprintf "%x/%s" (int_of_nat c) (snapshot st') in
             (match String.index_opt ob '/' with
              | Some j ->
                let gc = String.sub ob 0 j in
                if gc = "0" && not okmsg then
                  fail_prop (if b < k && d <> 0 && kind = 0 then "wrong-number-vote-counted" else "-")
                    (Printf.sprintf "op %d (%s): the implementation counted a vote the property excludes; go=%s model=%s" i op ob expect);
                if gc = "0" && okmsg then nontriv := true
              | None -> fail_prop "-" ("malformed observation " ^ ob));
             if ob <> expect then begin
               fail_eq (Printf.sprintf "op %d (%s): go=%s model=%s" i op ob expect); diverged := true end;
             tag (Printf.sprintf "msg-class-%d" (int_of_nat c));
             st := st'
           | _ -> fail "bad op %s" op)
        | 'o' ->
          let b = nat_of_hex (String.sub op 3 (String.length op - 3)) in
          let st' = store_own e !st (stage_of op.[1]) { gv_block = b; gv_num = drv_n_of_nat (depth t b) } in
          let expect = "0/" ^ snapshot st' in
          if ob <> expect then begin fail_eq (Printf.sprintf "op %d (%s): go=%s model=%s" i op ob expect); diverged := true end;
          tag "own-vote"; st := st'
        | 'G' | 'P' ->
          let capped = (op.[0] = 'P') in
          let r = if capped then determine_precommit repaired e !st else prevoted_block e !st in
          let det = not (hash_conflict !st Prevote) && no_tie (prevote_candidates e !st) in
          if det then begin
            if out_str r <> ob then fail_eq (Printf.sprintf "op %d (%s): go=%s model=%s" i op ob (out_str r));
            last_query := Some (e, !st, op.[0], ob)
          end else tag "order-dependent";
          (* property *)
          let clean = stored_ok e !st && spec_tolerant e !st Prevote in
          (match spec_ghost e !st Prevote with
           | Some g when clean ->
             tag (if capped then "precommit-with-supermajority" else "ghost-with-supermajority");
             if g <> O then nontriv := true;
             (match parse_gv ob with
              | Some r ->
                if not (precommit_ok e !st capped r) then
                  fail_prop "-" (Printf.sprintf "op %d (%s): answer %s is not the %s (spec ghost %s)" i op ob
                                   (if capped then "capped target" else "prevote ghost") (hex_of_nat g))
              | None ->
                (* an error although a target exists: only legitimate when the cap cannot be resolved *)
                if not (capped && spec_target e !st = None) then
                  fail_prop "-" (Printf.sprintf "op %d (%s): answer %s although block %s has a supermajority" i op ob (hex_of_nat g)))
           | Some _ -> tag "unclean-or-intolerant"
           | None -> tag "no-prevote-supermajority")
        | 'V' ->
          (* determinePreVote: deterministic (no map iteration); the round is 5 in the harness *)
          let r = determine_prevote e !st (nat_of_int (5 mod (int_of_nat e.e_voters))) in
          if out_str r <> ob then fail_eq (Printf.sprintf "op %d (V): go=%s model=%s" i ob (out_str r));
          last_query := Some (e, !st, 'V', ob);
          (match lookup (nat_of_int (5 mod (int_of_nat e.e_voters))) !st.s_pv with
           | Some _ -> tag "prevote-from-primary" | None -> tag "prevote-best-block")
        | 'B' ->
          let r = best_final_candidate e !st in
          let det = not (hash_conflict !st Prevote) && no_tie (prevote_candidates e !st)
                    && not (hash_conflict !st Precommit) in
          if det then begin
            if out_str r <> ob then fail_eq (Printf.sprintf "op %d (%s): go=%s model=%s" i op ob (out_str r))
          end else tag "order-dependent";
          tag "bfc"
        | 'F' ->
          let (r, st') = attempt_to_finalize e !st in
          let det = not (hash_conflict !st Prevote) && no_tie (prevote_candidates e !st)
                    && not (hash_conflict !st Precommit) in
          let expect = (match r with
            | Ok None -> "0" | Ok (Some b) -> "1." ^ hex_of_nat b
            | Err c -> Printf.sprintf "e%x" (int_of_nat c) | Panic -> "panic" | OutOfFuel -> "outoffuel")
            ^ "/h" ^ hex_of_nat st'.s_head in
          (* property on the implementation's answer *)
          (match String.split_on_char '/' ob with
           | [a; _] when String.length a > 2 && String.sub a 0 2 = "1." ->
             tag "finalised"; nontriv := true;
             let b = String.sub a 2 (String.length a - 2) in
             let clean = stored_ok e !st && spec_tolerant e !st Prevote && spec_tolerant e !st Precommit in
             if clean then begin
               if b = "?" || b = "none" || not (finalise_ok e !st (nat_of_hex b)) then
                 fail_prop (if no_prevote_supermajority_guard e !st then "finalises-without-prevote-supermajority" else "-")
                   (Printf.sprintf "op %d (F): finalised %s: not (> 2/3 precommits and ancestor of the target)" i b)
             end else tag "unclean-or-intolerant"
           | _ -> tag "not-finalised");
          if det then begin
            if ob <> expect then begin fail_eq (Printf.sprintf "op %d (F): go=%s model=%s" i ob expect); diverged := true end;
            st := st'
          end else begin
            tag "order-dependent";
            (* follow the implementation's head *)
            (match String.split_on_char '/' ob with
             | [_; h] when String.length h > 1 && h.[0] = 'h' && h <> "h?" ->
               st := { !st with s_head = nat_of_hex (String.sub h 1 (String.length h - 1)) }
             | _ -> diverged := true)
          end
        | _ -> fail "bad op %s" op
        end) (List.combine ops obs_l);
      let tl = Hashtbl.fold (fun k () acc -> k :: acc) tags [] in
      { prop_ok = !prop; model_eq = !prop && !eq; nontrivial = !nontriv; finding = !finding;
        tags = String.concat "," (List.sort compare tl); detail = !detail }
    end
  | _ -> fail "C21: bad input %s" inp

(* vm_compute cross-check of the extraction: the last deterministic G / P / V query of the case,
   recomputed inside Coq from the mirror state (which the replay has just shown equal to the Go
   state dump) and compared with the Go answer *)
let coq inp obs =
  last_query := None;
  let v = (try Some (check inp obs) with _ -> None) in
  match v, !last_query with
  | Some v, Some (e, st, q, ob) when v.model_eq ->
    let nat x = string_of_int (int_of_nat x) in
    let nl l = "[" ^ String.concat "; " (List.map nat l) ^ "]%nat" in
    let gv g = Printf.sprintf "(mkGV %s %s)" (nat g.gv_block) (coq_n g.gv_num) in
    let votes l = "[" ^ String.concat "; " (List.map (fun (a, g) -> Printf.sprintf "(%s%%nat, %s)" (nat a) (gv g)) l) ^ "]" in
    let eqv l = "[" ^ String.concat "; " (List.map (fun (a, k) -> Printf.sprintf "(%s, %s)%%nat" (nat a) (nat k)) l) ^ "]" in
    let et = Printf.sprintf "(mkEnv %s %s %s %s %s)" (nl e.e_tree) (nat e.e_voters) (nat e.e_best)
        (match e.e_next_change with None -> "None" | Some n -> "(Some " ^ coq_n n ^ ")") (nat e.e_self) in
    let stt = Printf.sprintf "(mkSt %s %s %s %s %s)" (votes st.s_pv) (votes st.s_pc) (eqv st.s_pv_eq) (eqv st.s_pc_eq) (nat st.s_head) in
    let call = (match q with
      | 'G' -> "prevoted_block e st"
      | 'P' -> "determine_precommit true e st"
      | _ -> Printf.sprintf "determine_prevote e st (%d mod e_voters e)" 5) in
    let expect = (match parse_gv ob with
      | Some g -> Printf.sprintf "Ok g => (gv_block g =? %s)%%nat && (gv_num g =? %s)%%N | _ => false" (nat g.gv_block) (coq_n g.gv_num)
      | None ->
        let c = (try int_of_string ("0x" ^ String.sub ob 1 (String.length ob - 1)) with _ -> 9999) in
        Printf.sprintf "Err c => (c =? %d)%%nat | _ => false" c) in
    Some (Printf.sprintf "let e := %s in let st := %s in match %s with %s end" et stt call expect)
  | _ -> None

let () = run_driver ~coq check
