// C21 correspondence harness (injected into package lib/grandpa by `go test -overlay`).
//
// One case = a block tree, a voter set with real ed25519 keys, and a sequence of operations on a
// Service built in memory: vote messages fed through validateVoteMessage (signed for real), the
// node's own votes, and the selection functions getPreVotedBlock / determinePreCommit /
// getBestFinalCandidate / attemptToFinalize.  The BlockState is an in-memory implementation over
// the real lib/blocktree (IsDescendantOf, LowestCommonAncestor); the GrandpaState is a stub.
//
// input (fields separated by one space, numbers hex):
//   g <parents> <nvoters> <self> <head> <best> <nextchange|-> <ops>
//     parents     comma list: parent index of block 1, 2, ... (block 0 = genesis, number 0); "-" if none
//     self        index of the node's own key among the voters
//     head        index of the latest finalised block (s.head)
//     best        index of the head of the best chain (GetHeaderByNumber walks its ancestors)
//     nextchange  block height returned by NextGrandpaAuthorityChange, "-" = ErrNoNextAuthorityChange
//     ops         comma list of
//        m<p|c|q><voter>.<block>.<delta>.<kind>  vote message (p prevote, c precommit, q primary proposal)
//                   voter >= nvoters: a key that is not an authority;  block >= number of blocks: unknown hash
//                   claimed number = real number + delta (signed hex; for an unknown hash: delta itself)
//                   kind 0 well signed, 1 bad signature, 2 other set id, 3 round+1, 4 round-1, 5 round+5
//        o<p|c>.<block>     the node's own vote, stored directly
//        G | P | B | F      getPreVotedBlock | determinePreCommit | getBestFinalCandidate | attemptToFinalize
//        V                  determinePreVote (the round's primary is voter c21Round mod nvoters)
// observed: one entry per op, joined by ","
//     m, o : <class>/<prevotes>/<precommits>/<pv equivocators>/<pc equivocators>
//             votes: "+"-joined voter.block.number sorted by voter, equivocators: voter.count ; "-" if empty
//             class 0 = accepted, else the error class (see c21Class)
//     G,P,B,V: <block>.<number> | e<class>
//     F    : 0/h<head> | 1.<block>/h<head> | e<class>/h<head>
package grandpa

import (
	"encoding/json"
	"errors"
	"fmt"
	"sort"
	"strings"
	"sync"
	"testing"
	"time"

	"github.com/ChainSafe/gossamer/dot/network"
	"github.com/ChainSafe/gossamer/dot/state"
	"github.com/ChainSafe/gossamer/dot/types"
	"github.com/ChainSafe/gossamer/internal/database"
	"github.com/ChainSafe/gossamer/internal/log"
	"github.com/ChainSafe/gossamer/lib/blocktree"
	"github.com/ChainSafe/gossamer/lib/common"
	"github.com/ChainSafe/gossamer/lib/crypto/ed25519"
	"github.com/ChainSafe/gossamer/lib/runtime"
	"github.com/ChainSafe/gossamer/pkg/scale"
	"github.com/libp2p/go-libp2p/core/peer"
	"github.com/libp2p/go-libp2p/core/protocol"

	vu "github.com/ChainSafe/gossamer/internal/verifutil"
)

var errC21HeaderByNumber = errors.New("c21: no block of that number on the best chain")
var errC21NoRuntime = errors.New("c21: no runtime")

// ---- in-memory BlockState over the real block tree ----
type c21BlockState struct {
	bt        *blocktree.BlockTree
	headers   map[common.Hash]*types.Header
	genesis   common.Hash
	best      common.Hash
	finalised []common.Hash
	head      *types.Header
}

func (b *c21BlockState) GenesisHash() common.Hash { return b.genesis }
func (b *c21BlockState) HasHeader(h common.Hash) (bool, error) {
	_, ok := b.headers[h]
	return ok, nil
}
func (b *c21BlockState) GetHeader(h common.Hash) (*types.Header, error) {
	hd, ok := b.headers[h]
	if !ok {
		return nil, database.ErrNotFound
	}
	return hd, nil
}
func (b *c21BlockState) GetHeaderByNumber(num uint) (*types.Header, error) {
	cur := b.headers[b.best]
	for cur != nil {
		if cur.Number == num {
			return cur, nil
		}
		if cur.Number < num {
			break
		}
		cur = b.headers[cur.ParentHash]
	}
	return nil, errC21HeaderByNumber
}

// as dot/state BlockState.IsDescendantOf: the block tree first, then the headers
func (b *c21BlockState) IsDescendantOf(ancestor, descendant common.Hash) (bool, error) {
	is, err := b.bt.IsDescendantOf(ancestor, descendant)
	if err != nil {
		dh, err2 := b.GetHeader(descendant)
		if err2 != nil {
			return false, fmt.Errorf("getting header: %w", err2)
		}
		ah, err2 := b.GetHeader(ancestor)
		if err2 != nil {
			return false, fmt.Errorf("getting header: %w", err2)
		}
		for cur := dh; cur.Number > ah.Number; {
			if cur.ParentHash == ancestor {
				return true, nil
			}
			cur, err2 = b.GetHeader(cur.ParentHash)
			if err2 != nil {
				return false, fmt.Errorf("getting header: %w", err2)
			}
		}
		return false, nil
	}
	return is, nil
}
func (b *c21BlockState) LowestCommonAncestor(x, y common.Hash) (common.Hash, error) {
	return b.bt.LowestCommonAncestor(x, y)
}
func (b *c21BlockState) HasFinalisedBlock(round, setID uint64) (bool, error) { return false, nil }
func (b *c21BlockState) GetFinalisedHeader(round, setID uint64) (*types.Header, error) {
	return b.head, nil
}
func (b *c21BlockState) GetRoundAndSetID() (uint64, uint64) { return 0, 0 }
func (b *c21BlockState) GetFinalisedHash(round, setID uint64) (common.Hash, error) {
	return b.head.Hash(), nil
}
func (b *c21BlockState) SetFinalisedHash(h common.Hash, round, setID uint64) error {
	b.finalised = append(b.finalised, h)
	return nil
}
func (b *c21BlockState) BestBlockHeader() (*types.Header, error) { return b.headers[b.best], nil }
func (b *c21BlockState) GetHighestFinalisedHeader() (*types.Header, error) {
	return b.head, nil
}
func (b *c21BlockState) GetImportedBlockNotifierChannel() chan *types.Block {
	return make(chan *types.Block)
}
func (b *c21BlockState) FreeImportedBlockNotifierChannel(ch chan *types.Block) {}
func (b *c21BlockState) GetFinalisedNotifierChannel() chan *types.FinalisationInfo {
	return make(chan *types.FinalisationInfo)
}
func (b *c21BlockState) FreeFinalisedNotifierChannel(ch chan *types.FinalisationInfo) {}
func (b *c21BlockState) SetJustification(hash common.Hash, data []byte) error   { return nil }
func (b *c21BlockState) BestBlockNumber() (uint, error)                          { return b.headers[b.best].Number, nil }
func (b *c21BlockState) GetHighestRoundAndSetID() (uint64, uint64, error)        { return 0, 0, nil }
func (b *c21BlockState) BestBlockHash() common.Hash                              { return b.best }
func (b *c21BlockState) GetRuntime(h common.Hash) (runtime.Instance, error)      { return nil, errC21NoRuntime }
func (b *c21BlockState) GetJustification(hash common.Hash) ([]byte, error)       { return nil, database.ErrNotFound }

type c21GrandpaState struct {
	nextChange *uint
}

func (g *c21GrandpaState) GetCurrentSetID() (uint64, error) { return c21SetID, nil }
func (g *c21GrandpaState) GetAuthorities(setID uint64) ([]types.GrandpaVoter, error) {
	return nil, nil
}
func (g *c21GrandpaState) GetSetIDByBlockNumber(num uint) (uint64, error)          { return c21SetID, nil }
func (g *c21GrandpaState) SetLatestRound(round uint64) error                       { return nil }
func (g *c21GrandpaState) GetLatestRound() (uint64, error)                         { return c21Round, nil }
func (g *c21GrandpaState) SetPrevotes(round, setID uint64, data []SignedVote) error { return nil }
func (g *c21GrandpaState) SetPrecommits(round, setID uint64, data []SignedVote) error {
	return nil
}
func (g *c21GrandpaState) GetPrevotes(round, setID uint64) ([]SignedVote, error)   { return nil, nil }
func (g *c21GrandpaState) GetPrecommits(round, setID uint64) ([]SignedVote, error) { return nil, nil }
func (g *c21GrandpaState) NextGrandpaAuthorityChange(h common.Hash, n uint) (uint, error) {
	if g.nextChange == nil {
		return 0, state.ErrNoNextAuthorityChange
	}
	return *g.nextChange, nil
}
func (g *c21GrandpaState) GetAuthoritiesChangesFromBlock(blockNumber uint) ([]uint, error) {
	return nil, nil
}

type c21Network struct{}

func (c21Network) GossipMessage(msg network.NotificationsMessage)              {}
func (c21Network) SendMessage(to peer.ID, msg NotificationsMessage) error      { return nil }
func (c21Network) RegisterNotificationsProtocol(sub protocol.ID, messageID network.MessageType,
	handshakeGetter network.HandshakeGetter, handshakeDecoder network.HandshakeDecoder,
	handshakeValidator network.HandshakeValidator, messageDecoder network.MessageDecoder,
	messageHandler network.NotificationsMessageHandler, batchHandler network.NotificationsMessageBatchHandler,
	maxSize uint64) error {
	return nil
}

type c21Telemetry struct{}

func (c21Telemetry) SendMessage(msg json.Marshaler) {}

const (
	c21Round = uint64(5)
	c21SetID = uint64(3)
	c21Keys  = 10
)

var (
	c21Once     sync.Once
	c21Keypairs []*ed25519.Keypair
	c21Digest   types.Digest
)

func c21Init() {
	c21Once.Do(func() {
		logger.Patch(log.SetLevel(log.Critical))
		for i := 0; i < c21Keys; i++ {
			seed := make([]byte, 32)
			seed[0] = byte(i + 1)
			seed[31] = 0x21
			kp, err := ed25519.NewKeypairFromSeed(seed)
			if err != nil {
				panic(err)
			}
			c21Keypairs = append(c21Keypairs, kp)
		}
		babeDigest := types.NewBabeDigest()
		if err := babeDigest.SetValue(types.BabePrimaryPreDigest{AuthorityIndex: 0}); err != nil {
			panic(err)
		}
		enc, err := scale.Marshal(babeDigest)
		if err != nil {
			panic(err)
		}
		c21Digest = types.NewDigest()
		if err := c21Digest.Add(types.PreRuntimeDigest{ConsensusEngineID: types.BabeEngineID, Data: enc}); err != nil {
			panic(err)
		}
	})
}

func c21Class(err error) int {
	switch {
	case err == nil:
		return 0
	case errors.Is(err, ErrInvalidSignature):
		return 1
	case errors.Is(err, ErrSetIDMismatch):
		return 2
	case errors.Is(err, errRoundOutOfBounds):
		return 3
	case errors.Is(err, errRoundsMismatch):
		return 4
	case errors.Is(err, ErrVoterNotFound):
		return 5
	case errors.Is(err, errVoteFromSelf):
		return 6
	case errors.Is(err, ErrBlockDoesNotExist):
		return 7
	case errors.Is(err, errVoteBlockMismatch):
		return 8
	case errors.Is(err, ErrEquivocation):
		return 9
	case errors.Is(err, ErrBlockNumbersMismatch):
		return 10
	case errors.Is(err, ErrNoGHOST):
		return 20
	case errors.Is(err, errBeforeFinalizedBlock):
		return 21
	case errors.Is(err, errC21HeaderByNumber):
		return 22
	}
	return 99
}

func c21List(s string) []uint64 {
	if s == "-" || s == "" {
		return nil
	}
	parts := strings.Split(s, ",")
	out := make([]uint64, len(parts))
	for i, p := range parts {
		out[i] = vu.UnX(p)
	}
	return out
}

func c21Run(in string) string {
	c21Init()
	f := strings.Split(in, " ")
	if len(f) != 8 || f[0] != "g" {
		return "err:badinput"
	}
	parents := c21List(f[1])
	k := len(parents) + 1
	n := int(vu.UnX(f[2]))
	self := int(vu.UnX(f[3]))
	headIdx := int(vu.UnX(f[4]))
	bestIdx := int(vu.UnX(f[5]))
	if n < 1 || n+2 > c21Keys || self >= n || headIdx >= k || bestIdx >= k {
		return "err:badinput"
	}
	// headers
	hdr := make([]*types.Header, k)
	index := make(map[common.Hash]int)
	hdr[0] = types.NewHeader(common.Hash{}, common.Hash{}, common.Hash{}, 0, types.NewDigest())
	bs := &c21BlockState{headers: make(map[common.Hash]*types.Header)}
	bs.bt = blocktree.NewBlockTreeFromRoot(hdr[0])
	bs.genesis = hdr[0].Hash()
	bs.headers[hdr[0].Hash()] = hdr[0]
	index[hdr[0].Hash()] = 0
	for i := 1; i < k; i++ {
		p := int(parents[i-1])
		if p >= i {
			return "err:badinput"
		}
		hdr[i] = types.NewHeader(hdr[p].Hash(), common.Hash{}, common.Hash{byte(i), 0x21}, hdr[p].Number+1, c21Digest)
		if err := bs.bt.AddBlock(hdr[i], time.Unix(int64(1000+i), 0)); err != nil {
			return "err:addblock:" + err.Error()
		}
		bs.headers[hdr[i].Hash()] = hdr[i]
		index[hdr[i].Hash()] = i
	}
	bs.best = hdr[bestIdx].Hash()
	bs.head = hdr[headIdx]
	gs := &c21GrandpaState{}
	if f[6] != "-" {
		nc := uint(vu.UnX(f[6]))
		gs.nextChange = &nc
	}
	voters := make([]Voter, n)
	for i := 0; i < n; i++ {
		voters[i] = Voter{Key: *c21Keypairs[i].Public().(*ed25519.PublicKey), ID: uint64(i)}
	}
	voterIdx := make(map[ed25519.PublicKeyBytes]int)
	for i := 0; i < c21Keys; i++ {
		voterIdx[c21Keypairs[i].Public().(*ed25519.PublicKey).AsBytes()] = i
	}
	s := &Service{
		blockState:         bs,
		grandpaState:       gs,
		keypair:            c21Keypairs[self],
		authority:          true,
		network:            c21Network{},
		state:              NewState(voters, c21SetID, c21Round),
		prevotes:           new(sync.Map),
		precommits:         new(sync.Map),
		pvEquivocations:    make(map[ed25519.PublicKeyBytes][]*SignedVote),
		pcEquivocations:    make(map[ed25519.PublicKeyBytes][]*SignedVote),
		preVotedBlock:      make(map[uint64]*Vote),
		bestFinalCandidate: make(map[uint64]*Vote),
		head:               bs.head,
		resumed:            make(chan struct{}),
		telemetry:          c21Telemetry{},
		interval:           time.Second,
	}
	s.paused.Store(false)
	s.tracker = newTracker(bs, nil)

	blk := func(h common.Hash) string {
		if i, ok := index[h]; ok {
			return vu.X(uint64(i))
		}
		return "?"
	}
	voteStr := func(v Vote) string { return blk(v.Hash) + "." + vu.X(uint64(v.Number)) }
	dumpVotes := func(m *sync.Map) string {
		var items []string
		type ent struct {
			v int
			s string
		}
		var es []ent
		m.Range(func(key, value interface{}) bool {
			kb := key.(ed25519.PublicKeyBytes)
			sv := value.(*SignedVote)
			es = append(es, ent{voterIdx[kb], fmt.Sprintf("%x.%s", voterIdx[kb], voteStr(sv.Vote))})
			return true
		})
		sort.Slice(es, func(i, j int) bool { return es[i].v < es[j].v })
		for _, e := range es {
			items = append(items, e.s)
		}
		if len(items) == 0 {
			return "-"
		}
		return strings.Join(items, "+")
	}
	dumpEq := func(m map[ed25519.PublicKeyBytes][]*SignedVote) string {
		type ent struct {
			v int
			s string
		}
		var es []ent
		for kb, l := range m {
			es = append(es, ent{voterIdx[kb], fmt.Sprintf("%x.%x", voterIdx[kb], len(l))})
		}
		sort.Slice(es, func(i, j int) bool { return es[i].v < es[j].v })
		var items []string
		for _, e := range es {
			items = append(items, e.s)
		}
		if len(items) == 0 {
			return "-"
		}
		return strings.Join(items, "+")
	}
	snapshot := func() string {
		return dumpVotes(s.prevotes) + "/" + dumpVotes(s.precommits) + "/" + dumpEq(s.pvEquivocations) + "/" + dumpEq(s.pcEquivocations)
	}
	voteOf := func(b int, delta int64) *Vote {
		if b < k {
			return &Vote{Hash: hdr[b].Hash(), Number: uint32(int64(hdr[b].Number) + delta)} //nolint:gosec
		}
		return &Vote{Hash: common.Hash{0xee, byte(b), 0x21}, Number: uint32(delta)} //nolint:gosec
	}
	stageOf := func(c byte) Subround {
		switch c {
		case 'c':
			return precommit
		case 'q':
			return primaryProposal
		}
		return prevote
	}

	var out []string
	if f[7] != "-" {
		for _, op := range strings.Split(f[7], ",") {
			switch op[0] {
			case 'm':
				g := strings.Split(op[2:], ".")
				v, b, delta, kind := int(vu.UnX(g[0])), int(vu.UnX(g[1])), vu.UnXI(g[2]), int(vu.UnX(g[3]))
				if v >= c21Keys {
					return "err:badinput"
				}
				stage := stageOf(op[1])
				vote := voteOf(b, delta)
				round, setID := c21Round, c21SetID
				switch kind {
				case 2:
					setID++
				case 3:
					round++
				case 4:
					round--
				case 5:
					round += 5
				}
				msg, err := scale.Marshal(FullVote{Stage: stage, Vote: *vote, Round: round, SetID: setID})
				if err != nil {
					return "err:marshal"
				}
				sig, err := c21Keypairs[v].Sign(msg)
				if err != nil {
					return "err:sign"
				}
				if kind == 1 {
					sig[7] ^= 0x40
				}
				vm := &VoteMessage{Round: round, SetID: setID, Message: SignedMessage{
					Stage: stage, BlockHash: vote.Hash, Number: vote.Number,
					Signature:   ed25519.NewSignatureBytes(sig),
					AuthorityID: c21Keypairs[v].Public().(*ed25519.PublicKey).AsBytes(),
				}}
				_, err = s.validateVoteMessage(peer.ID("verif"), vm)
				out = append(out, fmt.Sprintf("%x/%s", c21Class(err), snapshot()))
			case 'o':
				b := int(vu.UnX(op[3:]))
				vote := voteOf(b, 0)
				stage := stageOf(op[1])
				sv, _, err := s.createSignedVoteAndVoteMessage(vote, stage)
				if err != nil {
					return "err:sign"
				}
				if stage == precommit {
					s.precommits.Store(s.publicKeyBytes(), sv)
				} else {
					s.prevotes.Store(s.publicKeyBytes(), sv)
				}
				out = append(out, "0/"+snapshot())
			case 'G':
				v, err := s.getPreVotedBlock()
				if err != nil {
					out = append(out, fmt.Sprintf("e%x", c21Class(err)))
				} else {
					out = append(out, voteStr(v))
				}
			case 'V':
				v, err := s.determinePreVote()
				if err != nil {
					out = append(out, fmt.Sprintf("e%x", c21Class(err)))
				} else {
					out = append(out, voteStr(*v))
				}
			case 'P':
				v, err := s.determinePreCommit()
				if err != nil {
					out = append(out, fmt.Sprintf("e%x", c21Class(err)))
				} else {
					out = append(out, voteStr(*v))
				}
			case 'B':
				v, err := s.getBestFinalCandidate()
				if err != nil {
					out = append(out, fmt.Sprintf("e%x", c21Class(err)))
				} else {
					out = append(out, voteStr(*v))
				}
			case 'F':
				before := len(bs.finalised)
				ok, err := s.attemptToFinalize()
				hd := "/h" + blk(s.head.Hash())
				switch {
				case err != nil:
					out = append(out, fmt.Sprintf("e%x%s", c21Class(err), hd))
				case ok:
					fin := "none"
					if len(bs.finalised) == before+1 {
						fin = blk(bs.finalised[before])
					}
					out = append(out, "1."+fin+hd)
				default:
					if len(bs.finalised) != before {
						out = append(out, "0!finalised"+hd)
					} else {
						out = append(out, "0"+hd)
					}
				}
			default:
				return "err:badinput"
			}
		}
	}
	if len(out) == 0 {
		return "-"
	}
	return strings.Join(out, ",")
}

// ---- generators ----

func c21Tree(r *vu.RNG, k int) []uint64 {
	p := make([]uint64, 0, k)
	mode := r.Intn(4)
	for i := 1; i < k; i++ {
		switch mode {
		case 0:
			p = append(p, uint64(r.Intn(i)))
		case 1:
			if r.Chance(3, 4) {
				p = append(p, uint64(i-1))
			} else {
				p = append(p, uint64(r.Intn(i)))
			}
		case 2:
			p = append(p, uint64(r.Intn((i+1)/2)))
		default:
			if i <= 2 {
				p = append(p, 0)
			} else {
				p = append(p, uint64(i-2))
			}
		}
	}
	return p
}

func c21Join(v []uint64) string {
	if len(v) == 0 {
		return "-"
	}
	s := make([]string, len(v))
	for i, x := range v {
		s[i] = vu.X(x)
	}
	return strings.Join(s, ",")
}

func c21Depth(parents []uint64, b int) int {
	d := 0
	for b > 0 {
		b = int(parents[b-1])
		d++
	}
	return d
}

func c21Below(parents []uint64, b int) []int {
	k := len(parents) + 1
	var out []int
	for c := 0; c < k; c++ {
		x := c
		for x > b {
			x = int(parents[x-1])
		}
		if x == b {
			out = append(out, c)
		}
	}
	return out
}

// malformed: probability (in 1/100) of each malformed kind per message
func c21Ops(r *vu.RNG, parents []uint64, n, self, head int, malformed int, wrongNumber int) string {
	k := len(parents) + 1
	below := c21Below(parents, head)
	var ops []string
	queries := []string{"G", "P", "B", "F", "V"}
	pickBlock := func(focus []int) int {
		switch r.Intn(8) {
		case 0:
			return r.Intn(k)
		default:
			return focus[r.Intn(len(focus))]
		}
	}
	focusRoot := below[r.Intn(len(below))]
	focus := c21Below(parents, focusRoot)
	if r.Chance(1, 3) {
		focus = below
	}
	m := 2 + r.Intn(3*n+2)
	for i := 0; i < m; i++ {
		if r.Chance(1, 6) {
			ops = append(ops, queries[r.Intn(len(queries))])
			continue
		}
		st := byte('p')
		switch r.Intn(9) {
		case 0, 1, 2, 3:
			st = 'c'
		case 4:
			if r.Chance(1, 3) {
				st = 'q'
			}
		}
		if r.Chance(1, 12) {
			b := pickBlock(focus)
			if st == 'q' {
				st = 'p'
			}
			ops = append(ops, fmt.Sprintf("o%c.%x", st, b))
			continue
		}
		v := r.Intn(n)
		if n > 1 && v == self && r.Chance(4, 5) {
			v = (v + 1) % n
		}
		b := pickBlock(focus)
		delta := int64(0)
		kind := 0
		if r.Intn(100) < malformed {
			switch r.Intn(7) {
			case 0:
				kind = 1
			case 1:
				kind = 2
			case 2:
				kind = 3 + r.Intn(3)
			case 3:
				v = n + r.Intn(2)
			case 4:
				b = k + r.Intn(3)
				delta = int64(r.Intn(5))
			case 5:
				v = self
			default:
				b = r.Intn(k) // possibly not a descendant of the head
			}
		}
		if r.Intn(100) < wrongNumber && b < k {
			delta = int64(1 + r.Intn(3))
			if r.Chance(1, 2) && c21Depth(parents, b) > 0 {
				delta = -int64(1 + r.Intn(c21Depth(parents, b)))
			}
		}
		ops = append(ops, fmt.Sprintf("m%c%x.%x.%s.%x", st, v, b, vu.XI(delta), kind))
	}
	for i := 0; i < 2+r.Intn(3); i++ {
		ops = append(ops, queries[r.Intn(len(queries))])
	}
	return strings.Join(ops, ",")
}

func c21Case(r *vu.RNG, kmax int, malformed, wrongNumber int) string {
	k := 1 + r.Intn(kmax)
	parents := c21Tree(r, k)
	n := 1 + r.Intn(7)
	if r.Chance(2, 3) {
		n = 3 + r.Intn(5)
	}
	self := r.Intn(n)
	head := 0
	if r.Chance(1, 3) {
		head = r.Intn(k)
	}
	// best: a deepest leaf, or any block
	best := 0
	for b := 0; b < k; b++ {
		if c21Depth(parents, b) > c21Depth(parents, best) {
			best = b
		}
	}
	if r.Chance(1, 4) {
		best = r.Intn(k)
	}
	nc := "-"
	if r.Chance(1, 3) { // a pending change above the finalised head (rarely at or below it)
		lo := c21Depth(parents, head) + 1
		hi := c21Depth(parents, best) + 1
		if hi < lo {
			hi = lo
		}
		nc = vu.X(uint64(r.Range(lo, hi)))
		if r.Chance(1, 10) {
			nc = vu.X(uint64(r.Intn(hi + 1)))
		}
	}
	return fmt.Sprintf("g %s %x %x %x %x %s %s", c21Join(parents), n, self, head, best, nc,
		c21Ops(r, parents, n, self, head, malformed, wrongNumber))
}

// all parent arrays for k blocks
func c21AllTrees(k int) [][]uint64 {
	res := [][]uint64{{}}
	for i := 1; i < k; i++ {
		var next [][]uint64
		for _, p := range res {
			for j := 0; j < i; j++ {
				next = append(next, append(append([]uint64{}, p...), uint64(j)))
			}
		}
		res = next
	}
	return res
}

// exhaustive small scope (thorough tier): every tree with <= 3 blocks (4 blocks sampled), 3
// voters (voter 2 is the node itself and votes directly), every assignment of {no vote, one
// vote, two different votes} per voter and stage, with and without a pending change at height 1,
// followed by the four queries.
func c21Exhaustive(r *vu.RNG, budget int, emit func(string)) {
	count := 0
	for k := 1; k <= 4; k++ {
		type opt []int
		opts := []opt{{}}
		for b := 0; b < k; b++ {
			opts = append(opts, opt{b})
		}
		for b1 := 0; b1 < k; b1++ {
			for b2 := b1 + 1; b2 < k; b2++ {
				opts = append(opts, opt{b1, b2})
			}
		}
		own := []opt{{}}
		for b := 0; b < k; b++ {
			own = append(own, opt{b})
		}
		for _, parents := range c21AllTrees(k) {
			best := 0
			for b := 0; b < k; b++ {
				if c21Depth(parents, b) > c21Depth(parents, best) {
					best = b
				}
			}
			// slots: pv voter0, pv voter1, pc voter0, pc voter1 over opts; pv self, pc self over own
			idx := make([]int, 6)
			lens := []int{len(opts), len(opts), len(opts), len(opts), len(own), len(own)}
			for {
				keep := k < 4 || r.Intn(40) == 0
				if keep {
					var ops []string
					for s := 0; s < 4; s++ {
						st := byte('p')
						if s >= 2 {
							st = 'c'
						}
						for _, b := range opts[idx[s]] {
							ops = append(ops, fmt.Sprintf("m%c%x.%x.0.0", st, s%2, b))
						}
					}
					for _, b := range own[idx[4]] {
						ops = append(ops, fmt.Sprintf("op.%x", b))
					}
					for _, b := range own[idx[5]] {
						ops = append(ops, fmt.Sprintf("oc.%x", b))
					}
					ops = append(ops, "G", "P", "B", "F")
					nc := "-"
					if count%2 == 1 {
						nc = "1"
					}
					emit(fmt.Sprintf("g %s 3 2 0 %x %s %s", c21Join(parents), best, nc, strings.Join(ops, ",")))
					count++
					if count >= budget {
						return
					}
				}
				s := 0
				for s < 6 {
					idx[s]++
					if idx[s] < lens[s] {
						break
					}
					idx[s] = 0
					s++
				}
				if s == 6 {
					break
				}
			}
		}
	}
}

// Directed at the finalisation rule (class of seeded/C21-m2): the node's prevote ghost g lies
// strictly BELOW a block c that collects > 2/3 of the precommits (some prevotes are delayed: just
// enough voters prevote g or c for g to have a supermajority, c does not).  The block to finalise
// is g, not c.  Variants: c on a fork off g's chain below g (then the common ancestor), a pending
// change, precommits split over descendants of c.
func c21DelayedPrevotes(r *vu.RNG) string {
	n := 4 + r.Intn(4)
	need := 2*n/3 + 1
	self := r.Intn(n)
	// a chain 0 - 1 - ... - d with side forks
	d := 2 + r.Intn(3)
	var parents []uint64
	for i := 1; i <= d; i++ {
		parents = append(parents, uint64(i-1))
	}
	gi := 1 + r.Intn(d-1) // ghost: block gi, 1 <= gi < d
	c := gi + 1 + r.Intn(d-gi)
	extra := r.Intn(3)
	for i := 0; i < extra; i++ { // side forks anywhere
		parents = append(parents, uint64(r.Intn(len(parents)+1)))
	}
	k := len(parents) + 1
	if r.Chance(1, 4) && extra > 0 { // c on a side fork
		c = d + 1 + r.Intn(extra)
	}
	var others []int
	for v := 0; v < n; v++ {
		if v != self {
			others = append(others, v)
		}
	}
	for i := len(others) - 1; i > 0; i-- {
		j := r.Intn(i + 1)
		others[i], others[j] = others[j], others[i]
	}
	var ops []string
	// prevotes: need voters in total on g's subtree, fewer than need on c
	onC := r.Intn(need) // 0 .. need-1
	cnt := 0
	for _, v := range others {
		if cnt >= need {
			break
		}
		b := gi
		if cnt < onC {
			b = c
		}
		ops = append(ops, fmt.Sprintf("mp%x.%x.0.0", v, b))
		cnt++
	}
	if cnt < need { // n - 1 < need cannot happen for n >= 4, kept for safety
		ops = append(ops, fmt.Sprintf("op.%x", gi))
	}
	// precommits: need voters on c (or its descendants)
	below := c21Below(parents, c)
	cnt = 0
	for i := len(others) - 1; i >= 0 && cnt < need; i-- {
		ops = append(ops, fmt.Sprintf("mc%x.%x.0.0", others[i], below[r.Intn(len(below))]))
		cnt++
	}
	if r.Chance(1, 2) {
		for i := len(ops) - 1; i > 0; i-- {
			j := r.Intn(i + 1)
			ops[i], ops[j] = ops[j], ops[i]
		}
	}
	ops = append(ops, "G", "B", "F")
	nc := "-"
	if r.Chance(1, 4) {
		nc = vu.X(uint64(1 + r.Intn(d)))
	}
	best := d
	if r.Chance(1, 3) {
		best = r.Intn(k)
	}
	return fmt.Sprintf("g %s %x %x 0 %x %s %s", c21Join(parents), n, self, best, nc, strings.Join(ops, ","))
}

func c21Gen(r *vu.RNG, n int, emit func(string)) {
	if vu.Thorough() {
		c21Exhaustive(r.Fork(), 400000, emit)
	}
	for i := 0; i < n; i++ {
		if i%20 == 7 {
			emit(c21DelayedPrevotes(r.Fork()))
			continue
		}
		switch r.Intn(10) {
		case 0, 1, 2, 3, 4: // mostly valid
			emit(c21Case(r, 8, 8, 0))
		case 5, 6: // malformed stream
			emit(c21Case(r, 8, 45, 0))
		case 7: // wrong block numbers
			emit(c21Case(r, 8, 8, 25))
		case 8: // tiny trees: collisions
			emit(c21Case(r, 3, 10, 3))
		default:
			emit(c21Case(r, 12, 10, 2))
		}
	}
}

func TestVerifC21(t *testing.T) { vu.Run(t, "C21", 1500, c21Gen, c21Run) }
