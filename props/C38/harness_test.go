// C38 correspondence harness (injected into package dot/rpc/modules by `go test -overlay`).
//
// A real InmemoryStorageState (state.NewStorageState over state.NewTries + a genesis BlockState on an
// in-memory database) sits behind the StateModule; no mock is involved. The case's trie is the state of
// block 1 (queried by state root resp. block hash); the best block (genesis) holds a decoy state.
//
// input:   rpc|rpcdb <ver:0|1> <entries> <query> <query> ...
//   rpc:   the case's trie is cached in the StorageState's Tries (the state of a recent block);
//   rpcdb: the trie was stored with StoreTrie by another StorageState sharing the database and is NOT
//          cached: the first query loads it from the database (loadTrie -> LoadFromDB; GetStorage ->
//          GetFromDB or the freshly cached trie), as for the state of an old block.
//   <entries> := <key>=<value>,... | ()            (Put in the given order; keys/values hex, "-" = empty)
//   query :=  KP:<prefix>:<qty>        page through state_getKeysPaged from AfterKey "" with the last key
//                                      returned as the next AfterKey until a page is shorter than qty
//                                      -> <page>|<page>|...   with <page> := <hexkey>,<hexkey>,... | ()
//                                      ("|loop" appended if more than (#entries + 3) pages were needed)
//             K1:<prefix>:<qty>:<after> one state_getKeysPaged call, AfterKey = "0x"+after ("" if after is "nil")
//                                      -> <page>
//             PR:<prefix>|PR:nil|PR:empty|PR:0x   state_getPairs with a prefix, a nil prefix, "" and "0x"
//                                      -> <key>=<value>,... | ()   (sorted by key for nil/empty/0x: Go map order)
//   prefixes are hex without 0x ("-" = the empty prefix, sent as "0x"; "empty" = the empty string "",
//   which GetKeysPaged itself turns into "0x"); qty is hex.
// observed: one token per query; "err" if the RPC method returned an error; a panic ends the case.
package modules

import (
	"encoding/json"
	"fmt"
	"sort"
	"strings"
	"testing"

	"github.com/ChainSafe/gossamer/dot/state"
	"github.com/ChainSafe/gossamer/dot/types"
	"github.com/ChainSafe/gossamer/internal/database"
	vu "github.com/ChainSafe/gossamer/internal/verifutil"
	"github.com/ChainSafe/gossamer/lib/common"
	rtstorage "github.com/ChainSafe/gossamer/lib/runtime/storage"
	"github.com/ChainSafe/gossamer/pkg/trie"
	"github.com/ChainSafe/gossamer/pkg/trie/inmemory"
)

type c38Telemetry struct{}

func (c38Telemetry) SendMessage(_ json.Marshaler) {}

var c38Dir string

func c38Module(mode, ver string, entries string) (sm *StateModule, root common.Hash, bhash common.Hash, n int, closer func(), err error) {
	tr := inmemory.NewEmptyTrie()
	if ver == "1" {
		tr.SetVersion(trie.V1)
	}
	if entries != "()" {
		for _, kv := range strings.Split(entries, ",") {
			g := strings.Split(kv, "=")
			if err = tr.Put(vu.UnHex(g[0]), vu.UnHex(g[1])); err != nil {
				return
			}
			n++
		}
	}
	root, err = tr.Hash()
	if err != nil {
		return
	}
	db, err := database.LoadDatabase(c38Dir, true)
	if err != nil {
		return
	}
	closer = func() { _ = db.Close() }
	// the best block (genesis) holds a decoy state, so that a query that ignores the requested
	// block/state root and falls back to the best block is observable
	decoy := inmemory.NewEmptyTrie()
	if err = decoy.Put([]byte{0xde, 0xca, 0xfb, 0xad}, []byte{0x01}); err != nil {
		return
	}
	decoyRoot, err := decoy.Hash()
	if err != nil {
		return
	}
	tries := state.NewTries()
	tries.SetTrie(decoy)
	if mode != "rpcdb" {
		tries.SetTrie(tr)
	}
	genesis := types.NewHeader(common.Hash{}, decoyRoot, trie.EmptyHash, 0, types.NewDigest())
	bs, err := state.NewBlockStateFromGenesis(db, tries, genesis, c38Telemetry{})
	if err != nil {
		return
	}
	header := types.NewHeader(genesis.Hash(), root, trie.EmptyHash, 1, types.NewDigest())
	if err = bs.SetHeader(header); err != nil {
		return
	}
	ss, err := state.NewStorageState(db, bs, tries)
	if err != nil {
		return
	}
	if mode == "rpcdb" {
		// another StorageState (own Tries cache) stores the trie into the shared database
		writer, werr := state.NewStorageState(db, bs, state.NewTries())
		if werr != nil {
			err = werr
			return
		}
		if err = writer.StoreTrie(rtstorage.NewTrieState(tr), nil); err != nil {
			return
		}
	}
	bhash = header.Hash()
	sm = NewStateModule(nil, ss, nil, nil)
	return
}

func c38Page(p []string) string {
	if len(p) == 0 {
		return "()"
	}
	out := make([]string, len(p))
	for i, k := range p {
		out[i] = vu.Hex(common.MustHexToBytes(k))
	}
	return strings.Join(out, ",")
}

func c38Prefix(p string) string {
	if p == "-" {
		return "0x"
	}
	if p == "empty" {
		return ""
	}
	return "0x" + p
}

func c38Query(sm *StateModule, root, bhash common.Hash, n int, q string) string {
	f := strings.Split(q, ":")
	switch f[0] {
	case "KP":
		qty := uint32(vu.UnX(f[2]))
		after := ""
		pages := []string{}
		for i := 0; ; i++ {
			var res StateStorageKeysResponse
			req := &StateStorageKeyRequest{Prefix: c38Prefix(f[1]), Qty: qty, AfterKey: after, Block: &root}
			if err := sm.GetKeysPaged(nil, req, &res); err != nil {
				return "err"
			}
			pages = append(pages, c38Page(res))
			if uint32(len(res)) < qty || len(res) == 0 {
				break
			}
			after = res[len(res)-1]
			if i > n+3 {
				pages = append(pages, "loop")
				break
			}
		}
		return strings.Join(pages, "|")
	case "K1":
		qty := uint32(vu.UnX(f[2]))
		after := ""
		if f[3] != "nil" {
			after = c38Prefix(f[3])
		}
		var res StateStorageKeysResponse
		req := &StateStorageKeyRequest{Prefix: c38Prefix(f[1]), Qty: qty, AfterKey: after, Block: &root}
		if err := sm.GetKeysPaged(nil, req, &res); err != nil {
			return "err"
		}
		return c38Page(res)
	case "PR":
		var req StatePairRequest
		sorted := false
		switch f[1] {
		case "nil":
			sorted = true
		case "empty":
			s := ""
			req.Prefix = &s
			sorted = true
		case "0x", "-":
			s := "0x"
			req.Prefix = &s
			sorted = true
		default:
			s := "0x" + f[1]
			req.Prefix = &s
		}
		req.Bhash = &bhash
		var res StatePairResponse
		if err := sm.GetPairs(nil, &req, &res); err != nil {
			return "err"
		}
		if len(res) == 0 {
			return "()"
		}
		parts := make([]string, len(res))
		for i, e := range res {
			kv, ok := e.([]string)
			if !ok || len(kv) != 2 {
				return "err:shape"
			}
			parts[i] = vu.Hex(common.MustHexToBytes(kv[0])) + "=" + vu.Hex(common.MustHexToBytes(kv[1]))
		}
		if sorted {
			sort.Slice(parts, func(i, j int) bool {
				return strings.SplitN(parts[i], "=", 2)[0] < strings.SplitN(parts[j], "=", 2)[0]
			})
		}
		return strings.Join(parts, ",")
	}
	return "badquery"
}

func c38Run(in string) (out string) {
	f := strings.Split(in, " ")
	if len(f) < 3 || (f[0] != "rpc" && f[0] != "rpcdb") {
		return "err:badinput"
	}
	sm, root, bhash, n, closer, err := c38Module(f[0], f[1], f[2])
	if closer != nil {
		defer closer()
	}
	if err != nil {
		return "err:setup:" + strings.ReplaceAll(err.Error(), " ", "_")
	}
	toks := []string{}
	defer func() {
		if p := recover(); p != nil {
			toks = append(toks, "panic")
			out = strings.Join(toks, " ")
		}
	}()
	for _, q := range f[3:] {
		toks = append(toks, c38Query(sm, root, bhash, n, q))
	}
	if len(toks) == 0 {
		return "()"
	}
	return strings.Join(toks, " ")
}

// ---- generator ----
var c38Alphabet = []byte{0x00, 0x01, 0x10, 0x1f, 0xf0, 0xff}

func c38Key(r *vu.RNG, alph []byte, keys []string) []byte {
	if len(keys) > 0 {
		switch r.Intn(8) {
		case 0:
			return []byte(keys[r.Intn(len(keys))])
		case 1:
			k := []byte(keys[r.Intn(len(keys))])
			return append(append([]byte{}, k...), alph[r.Intn(len(alph))])
		case 2:
			k := []byte(keys[r.Intn(len(keys))])
			if len(k) > 0 {
				return append([]byte{}, k[:r.Intn(len(k))]...)
			}
		}
	}
	n := r.Intn(4)
	if r.Chance(1, 15) {
		n = 4 + r.Intn(3)
	}
	k := make([]byte, n)
	for i := range k {
		k[i] = alph[r.Intn(len(alph))]
	}
	return k
}

// trimSensitive: the prefix lies in the known-finding class prefix-trim for this key set
func c38TrimSensitive(p []byte, keys []string) bool {
	if len(p) == 0 || p[len(p)-1]&0x0f != 0 {
		return false
	}
	for _, s := range keys {
		b := []byte(s)
		if !strings.HasPrefix(s, string(p)) && len(b) >= len(p) && strings.HasPrefix(s, string(p[:len(p)-1])) &&
			b[len(p)-1]>>4 == p[len(p)-1]>>4 {
			return true
		}
	}
	return false
}

func c38GenCase(r *vu.RNG) string {
	alph := c38Alphabet
	if r.Chance(1, 5) {
		alph = [][]byte{{0x00, 0x01}, {0x10, 0x1f}, {0x00, 0x10}, {0xf0, 0xff}}[r.Intn(4)]
	}
	var b strings.Builder
	mode := "rpc"
	if r.Chance(1, 4) {
		mode = "rpcdb"
	}
	fmt.Fprintf(&b, "%s %d ", mode, r.Intn(2))
	nk := r.Intn(14)
	set := map[string]bool{}
	keys := []string{}
	ents := []string{}
	for i := 0; i < nk; i++ {
		k := c38Key(r, alph, keys)
		if !set[string(k)] {
			set[string(k)] = true
			keys = append(keys, string(k))
		}
		vl := []int{0, 1, 2, 33}[r.Intn(4)]
		ents = append(ents, vu.Hex(k)+"="+vu.Hex(r.Bytes(vl)))
	}
	if len(ents) == 0 {
		b.WriteString("()")
	} else {
		b.WriteString(strings.Join(ents, ","))
	}
	nq := 2 + r.Intn(5)
	for i := 0; i < nq; i++ {
		var p []byte
		for try := 0; ; try++ {
			p = c38Key(r, alph, keys)
			if r.Chance(1, 4) {
				p = []byte{}
			}
			if try >= 6 || !c38TrimSensitive(p, keys) || r.Chance(1, 8) {
				break
			}
		}
		m := 0
		for _, s := range keys {
			if strings.HasPrefix(s, string(p)) {
				m++
			}
		}
		ptok := vu.Hex(p)
		if len(p) == 0 && r.Chance(1, 3) {
			ptok = "empty" // Prefix "" in the request
		}
		switch r.Intn(6) {
		case 0, 1, 2:
			qty := 1 + r.Intn(m+2)
			if r.Chance(1, 15) {
				qty = 0
			}
			fmt.Fprintf(&b, " KP:%s:%s", ptok, vu.X(uint64(qty)))
		case 3:
			after := "nil"
			if r.Chance(3, 4) {
				after = vu.Hex(c38Key(r, alph, keys))
			}
			fmt.Fprintf(&b, " K1:%s:%s:%s", ptok, vu.X(uint64(r.Intn(m+3))), after)
		default:
			switch r.Intn(6) {
			case 0:
				b.WriteString(" PR:nil")
			case 1:
				b.WriteString(" PR:empty")
			case 2:
				b.WriteString(" PR:0x")
			default:
				if len(p) == 0 {
					b.WriteString(" PR:0x")
				} else {
					fmt.Fprintf(&b, " PR:%s", vu.Hex(p))
				}
			}
		}
	}
	return b.String()
}

func c38Generate(r *vu.RNG, n int, emit func(string)) {
	// verifutil.NewRNG(seed) starts at seed*golden+c and U64 advances by golden, so the streams of seed s and
	// s+1 are the same stream shifted by one draw; re-seeding from a mixed output decorrelates the seeds
	r = r.Fork()
	for _, s := range []string{
		"rpc 0 () KP:-:1 KP:-:0 PR:nil PR:empty PR:0x PR:00 K1:-:3:nil",
		"rpc 0 1001=aa,1f02=bb KP:10:1 KP:10:5 PR:10",
		"rpc 1 -=01,00=02,0000=03,0001=04,01=05 KP:-:1 KP:-:2 KP:00:1 KP:00:7 PR:00 PR:0000 K1:-:2:00 K1:-:9:-",
		"rpc 0 1245=01,1255=02 KP:13:2 KP:1345:2 PR:13",
		"rpc 0 01=aa,02=bb,0201=cc KP:empty:1 KP:empty:2 K1:empty:2:01 K1:empty:5:nil",
		"rpcdb 0 01=aa,02=bb,0201=cc KP:-:1 PR:02 PR:nil K1:02:5:nil",
		"rpcdb 1 01=aa,02=000102030405060708090a0b0c0d0e0f101112131415161718191a1b1c1d1e1f20,0201=cc PR:02 KP:-:2 PR:nil",
		"rpcdb 0 () KP:-:1 PR:nil PR:01",
	} {
		emit(s)
	}
	for i := 0; i < n; i++ {
		emit(c38GenCase(r.Fork()))
	}
}

func TestVerifC38(t *testing.T) {
	c38Dir = t.TempDir()
	vu.Run(t, "C38", 1000, c38Generate, c38Run)
}
