(* C38 driver: replays the RPC queries of a case on (a) the model of GetKeysPaged/GetPairs over the
   trie model and (b) the ordered byte-string map of the case's entries (the specification of
   C38_paging / C38_pairs), and compares both with the RPC responses token by token. *)
open Model
open Vutil

let str_page = function [] -> "()" | p -> String.concat "," (List.map hex_of_bytes p)
let str_pairs = function
  | [] -> "()"
  | l -> String.concat "," (List.map (fun (k, v) ->
      hex_of_bytes k ^ "=" ^ (match v with Some v -> hex_of_bytes v | None -> "nil")) l)

let parse_entries s =
  if s = "()" then [] else
  List.map (fun kv -> match String.split_on_char '=' kv with
    | [k; v] -> (bytes_of_hex k, bytes_of_hex v) | _ -> fail "C38: bad entry %s" kv)
    (String.split_on_char ',' s)

let prefix_of s = if s = "-" || s = "empty" then [] else bytes_of_hex s

(* returns (model token, spec token, guard prefix option) *)
let query t m n q =
  match String.split_on_char ':' q with
  | ["KP"; p; qty] ->
    let p = prefix_of p and qty = n_of_hex qty in
    let model = (match paging (nat_of_int (n + 5)) t p qty [] with
      | Ok (ps, fin) -> String.concat "|" (List.map str_page ps) ^ (if fin then "" else "|loop")
      | _ -> "panic") in
    let spec = String.concat "|" (List.map str_page (spec_paging m p qty)) in
    (model, spec, Some p)
  | ["K1"; p; qty; after] ->
    let p = prefix_of p and qty = n_of_hex qty in
    let a = if after = "nil" then None else Some (prefix_of after) in
    let model = (match keys_paged t p qty (match a with None -> [] | Some a -> hex0x a) with
      | Ok pg -> str_page pg | _ -> "panic") in
    (model, str_page (spec_page m p qty a), Some p)
  | ["PR"; p] ->
    let po = (match p with "nil" | "empty" | "0x" | "-" -> None | _ -> Some (bytes_of_hex p)) in
    let model = (match pairs t po with Ok l -> str_pairs l | _ -> "panic") in
    (model, str_pairs (spec_pairs m po), po)
  | _ -> fail "C38: bad query %s" q

let check inp obs =
  match split_ws inp with
  | (("rpc" | "rpcdb") as mode) :: _ver :: ents :: qs ->
    let es = parse_entries ents in
    let t = trie_of_entries es and m = bm_of_list es in
    let n = List.length es in
    let got = if obs = "()" then [] else split_ws obs in
    let res = List.map (query t m n) qs in
    let model = List.map (fun (a, _, _) -> a) res and spec = List.map (fun (_, b, _) -> b) res in
    (* a model panic ends the case like the Go one *)
    let rec cut = function [] -> [] | "panic" :: _ -> ["panic"] | x :: r -> x :: cut r in
    let model = cut model in
    let rec first_diff i a b = match a, b with
      | x :: a', y :: b' -> if x = y then first_diff (i + 1) a' b' else Some i
      | [], [] -> None | _ -> Some i in
    let pd = first_diff 0 got spec and md = first_diff 0 got model in
    let slug = (match pd with
      | Some i when i < List.length res ->
        (match List.nth res i with (_, _, Some p) when guard_trim m p -> "prefix-trim" | _ -> "-")
      | _ -> "-") in
    let kinds = List.sort_uniq compare (List.map (fun q -> String.sub q 0 2) qs) in
    let nth_or l i = try List.nth l i with _ -> "<missing>" in
    let multi = List.exists (fun s -> String.contains s '|') spec in
    let has_empty = List.exists (fun q -> match String.split_on_char ':' q with
      | ("KP" | "K1") :: "empty" :: _ -> true | _ -> false) qs in
    let tags = [mode] @ (if has_empty then ["prefix-empty-string"] else [])
               @ List.map (fun k -> "q-" ^ k) kinds
               @ (if multi then ["multi-page"] else [])
               @ (if n = 0 then ["empty-state"] else [])
               @ (match pd with Some i -> ["propfail-" ^ String.sub (nth_or qs i) 0 2 ^ "-" ^ slug] | None -> []) in
    let detail =
      (match pd with Some i -> Printf.sprintf "q#%d %s: rpc=%s map=%s; " i (nth_or qs i) (nth_or got i) (nth_or spec i) | None -> "")
      ^ (match md with Some i -> Printf.sprintf "q#%d %s: rpc=%s model=%s" i (nth_or qs i) (nth_or got i) (nth_or model i) | None -> "") in
    { prop_ok = (pd = None); model_eq = (md = None); nontrivial = (n >= 2 && qs <> []);
      finding = slug; tags = String.concat "," tags; detail }
  | _ -> fail "C38: bad input %s" inp

(* vm_compute cross-check: the model's answers recomputed inside Coq and compared with the RPC's *)
let coq_keys l = "[" ^ String.concat "; " (List.map coq_bytes l) ^ "]"
let coq inp obs =
  match split_ws inp with
  | ("rpc" | "rpcdb") :: _ver :: ents :: qs when List.length qs = List.length (split_ws obs) ->
    let es = parse_entries ents in
    let n = List.length es in
    if n > 14 then None else
    let ces = "[" ^ String.concat "; " (List.map (fun (k, v) -> "(" ^ coq_bytes k ^ ", " ^ coq_bytes v ^ ")") es) ^ "]" in
    let parse_page s = if s = "()" then [] else List.map bytes_of_hex (String.split_on_char ',' s) in
    let one q o =
      if o = "err" || o = "panic" then None else
      match String.split_on_char ':' q with
      | ["KP"; p; qty] ->
        let pages = String.split_on_char '|' o in
        if List.mem "loop" pages then None else
        Some (Printf.sprintf "check_paging t %s %s %d [%s]" (coq_bytes (prefix_of p)) (coq_n (n_of_hex qty)) (n + 5)
                (String.concat "; " (List.map (fun pg -> coq_keys (parse_page pg)) pages)))
      | ["K1"; p; qty; after] ->
        Some (Printf.sprintf "check_page t %s %s %s %s" (coq_bytes (prefix_of p)) (coq_n (n_of_hex qty))
                (if after = "nil" then "None" else "(Some " ^ coq_bytes (prefix_of after) ^ ")")
                (coq_keys (parse_page o)))
      | ["PR"; p] ->
        let po = (match p with "nil" | "empty" | "0x" | "-" -> "None" | _ -> "(Some " ^ coq_bytes (bytes_of_hex p) ^ ")") in
        let prs = if o = "()" then [] else List.map (fun kv -> match String.split_on_char '=' kv with
          | [k; v] -> "(" ^ coq_bytes (bytes_of_hex k) ^ ", " ^ coq_bytes (bytes_of_hex v) ^ ")"
          | _ -> fail "C38: bad pair %s" kv) (String.split_on_char ',' o) in
        Some (Printf.sprintf "check_pairs t %s [%s]" po (String.concat "; " prs))
      | _ -> None in
    let terms = List.filter_map (fun x -> x) (List.map2 one qs (split_ws obs)) in
    if terms = [] then None else
    Some (Printf.sprintf "let t := trie_of_entries %s in %s" ces (String.concat " && " terms))
  | _ -> None

let () = run_driver ~coq check
