(* C15 driver: replays the Go trace of lib/blocktree on the extracted model (model_eq) and
   evaluates the property predicates of coq/BlockTree/Spec.v (the [check_*] functions and the
   spec transitions the theorems of coq/C15/Properties.v are about) on the implementation's own
   observables (prop_ok).  Grammar: see props/C15/harness_test.go. *)
open Model
open Vutil

type blkdef = { parent : int; number : n; kind : int; arrival : z }

let split c s = String.split_on_char c s
let hexi s = int_of_string ("0x" ^ s)
let xs i = Printf.sprintf "%x" i
let unknown_hash i = n_of_hex (Printf.sprintf "ee%02x%02xee%056x" (i land 255) ((i lsr 8) land 255) 0)
let never_hash = n_of_hex ("1" ^ String.make 64 '0')

let digest_of_kind = function
  | 0 -> DPrimary | 1 -> DSecondaryPlain | 2 -> DSecondaryVRF | 3 -> DNone | 4 -> DNotPreRuntime
  | _ -> DUndecodable

let str_outcome f = function
  | Ok x -> f x | Err c -> "e" ^ string_of_int (int_of_nat c) | Panic -> "panic" | OutOfFuel -> "fuel"

let check inp obs =
  let f = split_ws inp in
  let rootnum, nblk, rest = match f with
    | "t" :: rn :: nb :: rest -> n_of_hex rn, hexi nb, rest
    | _ -> fail "C15: bad input %s" inp in
  let rec take k l acc = if k = 0 then (List.rev acc, l) else
      match l with x :: r -> take (k - 1) r (x :: acc) | [] -> fail "C15: short input" in
  let blks_s, ops = take nblk rest [] in
  let blks = Array.of_list ({ parent = -1; number = rootnum; kind = 0; arrival = Z0 } ::
    List.map (fun s -> match split '.' s with
      | [p; nu; k; a] -> { parent = hexi p; number = n_of_hex nu; kind = hexi k; arrival = z_of_hex a }
      | _ -> fail "C15: bad block %s" s) blks_s) in
  let otoks = split_ws obs in
  if otoks = ["panic"] || otoks = ["hang"] then
    { prop_ok = false; model_eq = false; nontrivial = true; finding = "-"; tags = "whole-case-" ^ obs;
      detail = "the harness case ended in " ^ obs }
  else
  let htab, oops = match otoks with
    | h :: r when String.length h > 2 && String.sub h 0 2 = "H:" ->
      Array.of_list (List.map n_of_hex (split ',' (String.sub h 2 (String.length h - 2)))), r
    | _ -> fail "C15: observed lacks the hash table: %s" obs in
  if Array.length htab <> nblk + 1 then fail "C15: hash table size";
  let hash i = if i >= 0 && i <= nblk then htab.(i) else unknown_hash i in
  let id_of h =
    let r = ref "?" in
    Array.iteri (fun i x -> if x = h then r := xs i) htab; !r in
  let idx_of h = let r = ref (-1) in Array.iteri (fun i x -> if x = h then r := i) htab; !r in
  let fmt_list ?(sorted=false) sep (l : n list) =
    if l = [] then "-" else begin
      let known = List.filter (fun h -> idx_of h >= 0) l in
      let unk = List.length l - List.length known in
      let ids = List.map idx_of known in
      let ids = if sorted then List.sort compare ids else ids in
      String.concat sep (List.map xs ids @ List.init unk (fun _ -> "?"))
    end in
  let parse_list sep s : n list =
    if s = "-" then [] else List.map (fun x -> if x = "?" then never_hash else hash (hexi x)) (split sep s) in
  let header i =
    let b = blks.(i) in
    { h_hash = hash i; h_parent = (if b.parent >= 0 && b.parent < i then hash b.parent else unknown_hash b.parent);
      h_number = b.number; h_digest = digest_of_kind b.kind } in
  let lo = (let r = int_of_n rootnum in (if r < 1 then 1 else r) - 1) in
  let hi = int_of_n rootnum + nblk + 1 in
  let nums = List.init (hi - lo + 1) (fun k -> lo + k) in
  (* outcome of a list-valued query as the harness prints it *)
  let parse_outcome_list s : n list outcome =
    if s = "panic" then Panic
    else if String.length s = 2 && s.[0] = 'e' && s.[1] >= '1' && s.[1] <= '9'
    then Err (nat_of_int (int_of_string (String.sub s 1 1)))
    else Ok (parse_list ',' s) in
  (* one replay of the ops on the model; [pre] selects the pinned pre-fix prune / range *)
  let model_tokens pre =
    let t = ref (new_tree (hash 0) rootnum Z0) in
    List.map (fun op ->
      match op.[0] with
      | 'a' ->
        let i = hexi (String.sub op 1 (String.length op - 1)) in
        (match add_block !t (header i) blks.(i).arrival with
         | Ok t' -> t := t'; "ok"
         | o -> str_outcome (fun _ -> "ok") o)
      | 'f' ->
        let i = hexi (String.sub op 1 (String.length op - 1)) in
        let (t', p) = (if pre then prune_prefix else prune) !t (hash i) in
        t := t'; "P:" ^ fmt_list "," p
      | 's' ->
        let byn = List.map (fun k -> xs k ^ "=" ^ str_outcome id_of (get_hash_by_number !t (n_of_int k))) nums in
        let atn = List.map (fun k -> xs k ^ "=" ^
          str_outcome (fmt_list ~sorted:true "/") (get_hashes_at_number !t (n_of_int k))) nums in
        "S:" ^ fmt_list "," (get_all_blocks !t) ^ ";" ^ fmt_list ~sorted:true "," (get_leaves_of !t) ^ ";" ^
        str_outcome id_of (best_block_hash !t) ^ ";" ^ String.concat "," byn ^ ";" ^ String.concat "," atn
      | 'q' ->
        (match split '.' (String.sub op 1 (String.length op - 1)) with
         | [a; b] ->
           let a = hash (hexi a) and b = hash (hexi b) in
           "Q:" ^ str_outcome (fun x -> if x then "t" else "f") (is_descendant_of !t a b) ^ ";" ^
           str_outcome id_of (lowest_common_ancestor !t a b) ^ ";" ^
           str_outcome (fmt_list ",") ((if pre then range_prefix else range) !t a b) ^ ";" ^
           str_outcome (fmt_list ",") ((if pre then range_in_memory_prefix else range_in_memory) !t a b) ^ ";" ^
           str_outcome (fmt_list ",") (get_all_descendants !t a)
         | _ -> fail "C15: bad op %s" op)
      | _ -> fail "C15: bad op %s" op) ops in
  let mt = model_tokens false in
  let model = String.concat " " mt in
  let impl = String.concat " " oops in
  let model_eq = (model = impl) in
  (* the property predicate on the implementation's observables, against the specification *)
  let s = ref { s_root = hash 0; s_rootnum = rootnum; s_blocks = [] } in
  let bad = ref [] in
  let tags = Hashtbl.create 16 in
  let tag x = Hashtbl.replace tags x () in
  let nontrivial = ref false in
  let note k what = bad := (Printf.sprintf "op#%d:%s" k what) :: !bad in
  if List.length oops <> List.length ops then note 0 "token-count"
  else
  List.iteri (fun k (op, tok) ->
      match op.[0] with
      | 'a' ->
        let i = hexi (String.sub op 1 (String.length op - 1)) in
        let (s', r) = s_step !s (OAdd (header i, blks.(i).arrival)) in
        let want = (match r with RAdd (Ok _) -> "ok" | RAdd o -> str_outcome (fun _ -> "ok") o | _ -> "?") in
        tag ("add-" ^ want);
        if tok <> want then note k ("AddBlock=" ^ tok ^ " spec=" ^ want);
        s := s'
      | 'f' ->
        let i = hexi (String.sub op 1 (String.length op - 1)) in
        let (s', want) = s_fin !s (hash i) in
        let got = (if String.length tok > 2 && String.sub tok 0 2 = "P:" then
                     Some (parse_list ',' (String.sub tok 2 (String.length tok - 2))) else None) in
        (match got with
         | Some g ->
           if not (check_pruned want g) then
             note k (Printf.sprintf "Prune reported [%s], neither-ancestor-nor-descendant set is [%s]"
                       (fmt_list "," g) (fmt_list ~sorted:true "," want))
         | None -> note k ("Prune=" ^ tok));
        let np = List.length want in
        tag (if (!s).s_root = s'.s_root then "fin-noop" else if np = 0 then "fin-pruned-0"
             else if np < 3 then "fin-pruned-1-2" else "fin-pruned-3+");
        if np > 0 then nontrivial := true;
        s := s'
      | 's' ->
        if String.length tok < 2 || String.sub tok 0 2 <> "S:" then note k ("snapshot=" ^ tok) else begin
          match split ';' (String.sub tok 2 (String.length tok - 2)) with
          | [all; lv; best; byn; atn] ->
            if not (check_blocks !s (parse_list ',' all)) then
              note k (Printf.sprintf "GetAllBlocks=[%s] spec=[%s]" all (fmt_list ~sorted:true "," ((!s).s_root :: List.map (fun b -> b.b_hash) (!s).s_blocks)));
            let ll = parse_list ',' lv in
            if not (check_leaves !s ll) then
              note k (Printf.sprintf "Leaves=[%s] spec=[%s]" lv (fmt_list ~sorted:true "," (s_leaves !s)));
            if List.length ll >= 2 then nontrivial := true;
            tag (let c = List.length ll in if c = 1 then "leaves-1" else if c < 4 then "leaves-2-3" else "leaves-4+");
            tag (let c = List.length (!s).s_blocks in if c < 6 then "size<6" else if c < 16 then "size<16" else "size>=16");
            let wb = (match s_best_hash !s with Some h -> id_of h | None -> "none") in
            if best <> wb then note k (Printf.sprintf "BestBlockHash=%s spec=%s" best wb);
            List.iter2 (fun kk e ->
                let w = s_hash_by_number !s (n_of_int kk) in
                let want = xs kk ^ "=" ^ str_outcome id_of w in
                tag ("bynum-" ^ (match w with Ok _ -> "ok" | o -> str_outcome (fun _ -> "ok") o));
                if e <> want then note k (Printf.sprintf "GetHashByNumber %s spec %s" e want))
              nums (split ',' byn);
            List.iter2 (fun kk e ->
                match split '=' e with
                | [_; l] ->
                  let pl = if l = "panic" then [] else parse_list '/' l in
                  if l = "panic" || not (check_at_number !s (n_of_int kk) pl) then
                    note k (Printf.sprintf "GetHashesAtNumber %s" e)
                  else if not (check_at_number_full !s (n_of_int kk) pl) then
                    note k (Printf.sprintf "GetHashesAtNumber %s does not list every held block with that number" e);
                  tag (match List.length pl with 0 -> "atnum-0" | 1 -> "atnum-1" | _ -> "atnum-2+")
                | _ -> note k "atnum-shape")
              nums (split ',' atn)
          | _ -> note k "snapshot-shape"
        end
      | 'q' ->
        (match split '.' (String.sub op 1 (String.length op - 1)) with
         | [a; b] ->
           let a = hash (hexi a) and b = hash (hexi b) in
           if String.length tok < 2 || String.sub tok 0 2 <> "Q:" then note k ("query=" ^ tok) else begin
             match split ';' (String.sub tok 2 (String.length tok - 2)) with
             | [isd; lca; rng; rim; desc] ->
               let w = str_outcome (fun x -> if x then "t" else "f") (s_is_descendant_of !s a b) in
               tag ("isdesc-" ^ w);
               if isd <> w then note k (Printf.sprintf "IsDescendantOf(%s,%s)=%s spec=%s" (id_of a) (id_of b) isd w);
               let w = str_outcome id_of (s_lca !s a b) in
               tag ("lca-" ^ (match s_lca !s a b with Ok x -> if x = a || x = b then "ok-endpoint" else "ok-proper" | _ -> w));
               if lca <> w then note k (Printf.sprintf "LowestCommonAncestor(%s,%s)=%s spec=%s" (id_of a) (id_of b) lca w);
               let r = parse_outcome_list rng in
               tag (match r with Ok _ -> "range-ok" | Err c -> "range-e" ^ string_of_int (int_of_nat c) | _ -> "range-panic");
               if not (check_range !s a b r) then
                 note k (Printf.sprintf "Range(%s,%s)=%s is not the parent-linked chain" (id_of a) (id_of b) rng);
               let r = parse_outcome_list rim in
               tag (match r with Ok _ -> "rim-ok" | Err c -> "rim-e" ^ string_of_int (int_of_nat c) | _ -> "rim-panic");
               if not (check_range_in_memory !s a b r) then
                 note k (Printf.sprintf "RangeInMemory(%s,%s)=%s is not the parent-linked chain" (id_of a) (id_of b) rim);
               if not (check_descendants !s a (parse_outcome_list desc)) then
                 note k (Printf.sprintf "GetAllDescendants(%s)=%s" (id_of a) desc)
             | _ -> note k "query-shape"
           end
         | _ -> fail "C15: bad op %s" op)
      | _ -> fail "C15: bad op %s" op)
    (List.combine ops oops);
  let prop_ok = (!bad = []) in
  if not model_eq then begin
    let pre = String.concat " " (model_tokens true) in
    if pre = impl then tag "equals-prefix-model"
  end;
  let first_diff =
    if model_eq then "" else begin
      let rec go k a b = match a, b with
        | x :: a', y :: b' -> if x = y then go (k + 1) a' b' else Printf.sprintf "op#%d model=%s impl=%s" k x y
        | _ -> "length" in
      go 0 mt oops
    end in
  { prop_ok; model_eq; nontrivial = !nontrivial; finding = "-";
    tags = String.concat "," (List.sort compare (Hashtbl.fold (fun k () acc -> k :: acc) tags []));
    detail = (if prop_ok && model_eq then "" else
                String.concat " | " (List.rev !bad) ^ (if first_diff = "" then "" else " || " ^ first_diff)) }

(* vm_compute cross-check: the history replayed inside Coq (run of coq/BlockTree/Model.v) must
   give the AddBlock outcomes and the pruned lists the implementation reported *)
let coq inp obs =
  try
    let f = split_ws inp in
    let rootnum, nblk, rest = match f with
      | "t" :: rn :: nb :: rest -> n_of_hex rn, hexi nb, rest
      | _ -> raise Exit in
    let rec take k l acc = if k = 0 then (List.rev acc, l) else
        match l with x :: r -> take (k - 1) r (x :: acc) | [] -> raise Exit in
    let blks_s, ops = take nblk rest [] in
    if nblk > 12 then raise Exit;
    let blks = Array.of_list (("0", "0", 0, "0") :: List.map (fun s -> match split '.' s with
        | [p; nu; k; a] -> (p, nu, hexi k, a) | _ -> raise Exit) blks_s) in
    let htab, oops = match split_ws obs with
      | h :: r when String.length h > 2 && String.sub h 0 2 = "H:" ->
        Array.of_list (split ',' (String.sub h 2 (String.length h - 2))), r
      | _ -> raise Exit in
    let hash_lit i = if i >= 0 && i <= nblk then "(0x" ^ htab.(i) ^ ")%N"
      else coq_n (unknown_hash i) in
    let kind_s = function 0 -> "DPrimary" | 1 -> "DSecondaryPlain" | 2 -> "DSecondaryVRF" | 3 -> "DNone"
                          | 4 -> "DNotPreRuntime" | _ -> "DUndecodable" in
    let z_lit a = let v = int_of_string ("0x" ^ a) in Printf.sprintf "(%d)%%Z" v in
    let terms = ref [] and expect = ref [] in
    List.iter2 (fun op tok ->
        match op.[0] with
        | 'a' ->
          let i = hexi (String.sub op 1 (String.length op - 1)) in
          let (p, nu, k, a) = blks.(i) in
          let pi = hexi p in
          terms := Printf.sprintf "OAdd (mkHeader %s %s (0x%s)%%N %s) %s" (hash_lit i)
              (if pi >= 0 && pi < i then hash_lit pi else coq_n (unknown_hash pi)) nu (kind_s k) (z_lit a) :: !terms;
          expect := (if tok = "ok" then "(0%N, [])" else
                       Printf.sprintf "(%s%%N, [])" (String.sub tok 1 (String.length tok - 1))) :: !expect
        | 'f' ->
          let i = hexi (String.sub op 1 (String.length op - 1)) in
          terms := Printf.sprintf "OFin %s" (hash_lit i) :: !terms;
          let l = String.sub tok 2 (String.length tok - 2) in
          let ids = if l = "-" then [] else split ',' l in
          if List.mem "?" ids then raise Exit;
          expect := Printf.sprintf "(100%%N, [%s])" (String.concat "; " (List.map (fun x -> hash_lit (hexi x)) ids)) :: !expect
        | _ -> ()) ops oops;
    Some (Printf.sprintf "run_matches %s %s [%s] [%s]" (hash_lit 0) (coq_n rootnum)
            (String.concat "; " (List.rev !terms)) (String.concat "; " (List.rev !expect)))
  with _ -> None

let () = run_driver ~coq check
