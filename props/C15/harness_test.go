// C15 correspondence harness (injected into package lib/blocktree by `go test -overlay`).
//
// input (fields separated by one space, all numbers hex):
//   t <rootnum> <nblk> <blk_1> ... <blk_nblk> <op> ...
//   blk_i := <parent>.<number>.<kind>.<arrival>
//            parent: index of the parent block (0 = root, j < i = block j, anything else = a hash
//            that is never in the tree); number: header.Number; kind: first digest item
//            0 BABE primary, 1 secondary plain, 2 secondary VRF, 3 no digest, 4 first item is a
//            seal (not a pre-runtime digest), 5 pre-runtime digest with undecodable data;
//            arrival: nanoseconds (time.Unix(0, arrival)).  Headers are built in index order, the
//            hash of a block is the real Header.Hash().
//   op := a<i>      AddBlock(header_i, arrival_i)
//       | f<i>      Prune(hash_i)                 (i = 0 root; i > nblk: unknown hash)
//       | s         snapshot of the whole tree
//       | q<i>.<j>  pair queries on (hash_i, hash_j)
// observed:
//   H:<hash_0>,...,<hash_nblk> then one token per op; blocks are printed as their index, a hash
//   that is not in the table as `?`:
//   a -> ok | e1 (parent not found) | e2 (exists) | e3 (number) | e4 (IsPrimary failed)
//   f -> P:<pruned, in order>
//   s -> S:<GetAllBlocks, in order>;<Leaves, sorted>;<BestBlockHash>;<n=GetHashByNumber(n),...>;
//        <n=GetHashesAtNumber(n) sorted '/'-separated,...>   for n in [max(rootnum,1)-1, rootnum+nblk+1]
//   q -> Q:<IsDescendantOf(i,j)>;<LowestCommonAncestor(i,j)>;<Range(i,j)>;<RangeInMemory(i,j)>;
//        <GetAllDescendants(i), in order>
//        booleans t/f, lists comma separated (`-` empty), errors e<class> with the classes of
//        coq/BlockTree/Model.v (1 start not found -- also "start is not an ancestor of end",
//        2 end not found, 3 start greater than end, 4 nil block in range, 6 node not found,
//        7 number greater than highest, 8 number lower than root, 9 other), `panic`.
package blocktree

import (
	"errors"
	"fmt"
	"sort"
	"strings"
	"testing"
	"time"

	"github.com/ChainSafe/gossamer/dot/types"
	"github.com/ChainSafe/gossamer/lib/common"
	"github.com/ChainSafe/gossamer/lib/crypto/sr25519"

	vu "github.com/ChainSafe/gossamer/internal/verifutil"
)

type c15blk struct {
	parent  int
	number  uint64
	kind    int
	arrival int64
	header  *types.Header
}

func c15Digest(kind int, idx int) types.Digest {
	digest := types.NewDigest()
	var pre *types.PreRuntimeDigest
	var err error
	switch kind {
	case 0:
		pre, err = types.NewBabePrimaryPreDigest(uint32(idx), uint64(idx)+1,
			[sr25519.VRFOutputLength]byte{}, [sr25519.VRFProofLength]byte{}).ToPreRuntimeDigest()
	case 1:
		pre, err = types.NewBabeSecondaryPlainPreDigest(uint32(idx), uint64(idx)+1).ToPreRuntimeDigest()
	case 2:
		pre, err = types.NewBabeSecondaryVRFPreDigest(uint32(idx), uint64(idx)+1,
			[sr25519.VRFOutputLength]byte{}, [sr25519.VRFProofLength]byte{}).ToPreRuntimeDigest()
	case 3:
		return digest
	case 4:
		if e := digest.Add(types.SealDigest{ConsensusEngineID: types.BabeEngineID, Data: []byte{1, 2, 3}}); e != nil {
			panic(e)
		}
		return digest
	default:
		pre = &types.PreRuntimeDigest{ConsensusEngineID: types.BabeEngineID, Data: []byte{0xff, 0xff}}
	}
	if err != nil {
		panic(err)
	}
	if e := digest.Add(*pre); e != nil {
		panic(e)
	}
	return digest
}

func c15Unknown(i int) common.Hash {
	return common.Hash{0xee, byte(i), byte(i >> 8), 0xee}
}

type c15world struct {
	rootnum uint64
	blks    []c15blk // index 0 is the root
	ids     map[common.Hash]int
	ops     []string
}

func c15Parse(in string) *c15world {
	f := strings.Fields(in)
	if len(f) < 3 || f[0] != "t" {
		panic("c15: bad input " + in)
	}
	w := &c15world{rootnum: vu.UnX(f[1]), ids: map[common.Hash]int{}}
	n := int(vu.UnX(f[2]))
	root := &types.Header{ParentHash: common.Hash{0xaa}, Number: uint(w.rootnum), Digest: types.NewDigest()}
	w.blks = append(w.blks, c15blk{header: root, number: w.rootnum})
	w.ids[root.Hash()] = 0
	for i := 1; i <= n; i++ {
		p := strings.Split(f[2+i], ".")
		if len(p) != 4 {
			panic("c15: bad block " + f[2+i])
		}
		b := c15blk{parent: int(vu.UnX(p[0])), number: vu.UnX(p[1]), kind: int(vu.UnX(p[2])), arrival: vu.UnXI(p[3])}
		var ph common.Hash
		if b.parent >= 0 && b.parent < i {
			ph = w.blks[b.parent].header.Hash()
		} else {
			ph = c15Unknown(b.parent)
		}
		b.header = &types.Header{
			ParentHash:     ph,
			Number:         uint(b.number),
			ExtrinsicsRoot: common.Hash{byte(i), byte(i >> 8), 0x15},
			Digest:         c15Digest(b.kind, i),
		}
		w.blks = append(w.blks, b)
		w.ids[b.header.Hash()] = i
	}
	w.ops = f[3+n:]
	return w
}

func (w *c15world) hash(i int) common.Hash {
	if i >= 0 && i < len(w.blks) {
		return w.blks[i].header.Hash()
	}
	return c15Unknown(i)
}

func (w *c15world) id(h common.Hash) string {
	if i, ok := w.ids[h]; ok {
		return vu.X(uint64(i))
	}
	return "?"
}

func (w *c15world) list(hs []common.Hash, sorted bool, sep string) string {
	if len(hs) == 0 {
		return "-"
	}
	idx := make([]int, 0, len(hs))
	unknown := 0
	for _, h := range hs {
		if i, ok := w.ids[h]; ok {
			idx = append(idx, i)
		} else {
			unknown++
		}
	}
	if sorted {
		sort.Ints(idx)
	}
	out := make([]string, 0, len(hs))
	for _, i := range idx {
		out = append(out, vu.X(uint64(i)))
	}
	for i := 0; i < unknown; i++ {
		out = append(out, "?")
	}
	return strings.Join(out, sep)
}

func c15ErrClass(err error) string {
	switch {
	case err == nil:
		return "ok"
	case errors.Is(err, ErrStartNodeNotFound):
		return "e1"
	case errors.Is(err, ErrEndNodeNotFound):
		return "e2"
	case errors.Is(err, ErrStartGreaterThanEnd):
		return "e3"
	case errors.Is(err, ErrNilBlockInRange):
		return "e4"
	case errors.Is(err, ErrNodeNotFound):
		return "e6"
	case errors.Is(err, ErrNumGreaterThanHighest):
		return "e7"
	case errors.Is(err, ErrNumLowerThanRoot):
		return "e8"
	}
	return "e9"
}

func c15AddClass(err error) string {
	switch {
	case err == nil:
		return "ok"
	case errors.Is(err, ErrParentNotFound):
		return "e1"
	case errors.Is(err, ErrBlockExists):
		return "e2"
	case errors.Is(err, errUnexpectedNumber):
		return "e3"
	}
	return "e4"
}

func c15Guard(f func() string) (out string) {
	defer func() {
		if p := recover(); p != nil {
			out = "panic"
		}
	}()
	return f()
}

func c15NumRange(w *c15world) (lo, hi uint64) {
	lo = w.rootnum
	if lo < 1 {
		lo = 1
	}
	return lo - 1, w.rootnum + uint64(len(w.blks)-1) + 1
}

func c15Run(in string) string {
	w := c15Parse(in)
	bt := NewBlockTreeFromRoot(w.blks[0].header)
	var out []string
	hs := make([]string, len(w.blks))
	for i := range w.blks {
		h := w.blks[i].header.Hash()
		hs[i] = vu.Hex(h[:])
	}
	out = append(out, "H:"+strings.Join(hs, ","))
	for _, op := range w.ops {
		switch op[0] {
		case 'a':
			i := int(vu.UnX(op[1:]))
			b := w.blks[i]
			out = append(out, c15AddClass(bt.AddBlock(b.header, time.Unix(0, b.arrival))))
		case 'f':
			i := int(vu.UnX(op[1:]))
			pruned := bt.Prune(w.hash(i))
			out = append(out, "P:"+w.list(pruned, false, ","))
		case 's':
			lo, hi := c15NumRange(w)
			var byn, atn []string
			for n := lo; n <= hi; n++ {
				n := n
				byn = append(byn, vu.X(n)+"="+c15Guard(func() string {
					h, err := bt.GetHashByNumber(uint(n))
					if err != nil {
						return c15ErrClass(err)
					}
					return w.id(h)
				}))
				atn = append(atn, vu.X(n)+"="+c15Guard(func() string {
					return w.list(bt.GetHashesAtNumber(uint(n)), true, "/")
				}))
			}
			out = append(out, "S:"+w.list(bt.GetAllBlocks(), false, ",")+";"+
				w.list(bt.Leaves(), true, ",")+";"+
				c15Guard(func() string { return w.id(bt.BestBlockHash()) })+";"+
				strings.Join(byn, ",")+";"+strings.Join(atn, ","))
		case 'q':
			p := strings.Split(op[1:], ".")
			a, b := w.hash(int(vu.UnX(p[0]))), w.hash(int(vu.UnX(p[1])))
			isd := c15Guard(func() string {
				r, err := bt.IsDescendantOf(a, b)
				if err != nil {
					return c15ErrClass(err)
				}
				if r {
					return "t"
				}
				return "f"
			})
			lca := c15Guard(func() string {
				h, err := bt.LowestCommonAncestor(a, b)
				if err != nil {
					return c15ErrClass(err)
				}
				return w.id(h)
			})
			rng := c15Guard(func() string {
				l, err := bt.Range(a, b)
				if err != nil {
					return c15ErrClass(err)
				}
				return w.list(l, false, ",")
			})
			rim := c15Guard(func() string {
				l, err := bt.RangeInMemory(a, b)
				if err != nil {
					return c15ErrClass(err)
				}
				return w.list(l, false, ",")
			})
			desc := c15Guard(func() string {
				l, err := bt.GetAllDescendants(a)
				if err != nil {
					return c15ErrClass(err)
				}
				return w.list(l, false, ",")
			})
			out = append(out, "Q:"+isd+";"+lca+";"+rng+";"+rim+";"+desc)
		default:
			panic("c15: bad op " + op)
		}
	}
	return strings.Join(out, " ")
}

// ---------------------------------------------------------------- generators

type c15gen struct {
	r       *vu.RNG
	rootnum uint64
	par     []int    // par[i] parent of block i (1-based; par[0] unused)
	num     []uint64 // header numbers
	kind    []int
	arr     []int64
}

func (g *c15gen) blocks() string {
	var sb strings.Builder
	fmt.Fprintf(&sb, "t %s %s", vu.X(g.rootnum), vu.X(uint64(len(g.par)-1)))
	for i := 1; i < len(g.par); i++ {
		fmt.Fprintf(&sb, " %s.%s.%s.%s", vu.X(uint64(g.par[i])), vu.X(g.num[i]), vu.X(uint64(g.kind[i])), vu.XI(g.arr[i]))
	}
	return sb.String()
}

func c15NewGen(r *vu.RNG, rootnum uint64, par []int) *c15gen {
	g := &c15gen{r: r, rootnum: rootnum, par: par}
	n := len(par)
	g.num = make([]uint64, n)
	g.kind = make([]int, n)
	g.arr = make([]int64, n)
	g.num[0] = rootnum
	for i := 1; i < n; i++ {
		if par[i] >= 0 && par[i] < i {
			g.num[i] = g.num[par[i]] + 1
		} else {
			g.num[i] = rootnum + 1
		}
		g.kind[i] = r.Intn(3)
		g.arr[i] = int64(r.Intn(4))
	}
	return g
}

func c15AllPairs(n int, extra bool) []string {
	var ops []string
	hi := n
	if extra {
		hi = n + 1 // one unknown hash
	}
	for i := 0; i <= hi; i++ {
		for j := 0; j <= hi; j++ {
			ops = append(ops, fmt.Sprintf("q%s.%s", vu.X(uint64(i)), vu.X(uint64(j))))
		}
	}
	return ops
}

// every parent vector par[i] < i with n blocks: all rooted trees with n+1 nodes in every
// parent-first insertion order
func c15ParentVectors(n int, f func(par []int)) {
	par := make([]int, n+1)
	var rec func(i int)
	rec = func(i int) {
		if i > n {
			f(append([]int(nil), par...))
			return
		}
		for p := 0; p < i; p++ {
			par[i] = p
			rec(i + 1)
		}
	}
	rec(1)
}

func c15Exhaustive(r *vu.RNG, maxBlocks int, emit func(string)) {
	for n := 1; n <= maxBlocks; n++ {
		c15ParentVectors(n, func(par []int) {
			g := c15NewGen(r, uint64(r.Intn(3)), par)
			var adds []string
			for i := 1; i <= n; i++ {
				adds = append(adds, "a"+vu.X(uint64(i)))
			}
			pairs := c15AllPairs(n, n <= 4)
			base := g.blocks() + " " + strings.Join(adds, " ")
			emit(base + " s " + strings.Join(pairs, " "))
			for f := 1; f <= n; f++ {
				ops := base + " f" + vu.X(uint64(f)) + " s " + strings.Join(pairs, " ")
				if n <= 4 {
					// a second finalisation of every remaining/unknown target
					for f2 := 0; f2 <= n; f2++ {
						emit(ops + " f" + vu.X(uint64(f2)) + " s")
					}
				} else {
					emit(ops)
				}
			}
		})
	}
}

func c15Random(r *vu.RNG, emit func(string)) {
	n := r.Range(3, 40)
	mode := r.Intn(4)
	par := make([]int, n+1)
	hubs := []int{0}
	for i := 1; i <= n; i++ {
		switch mode {
		case 0: // uniform
			par[i] = r.Intn(i)
		case 1: // wide: few hubs with many children
			if r.Chance(1, 6) {
				hubs = append(hubs, i-1)
			}
			par[i] = hubs[r.Intn(len(hubs))]
		case 2: // long chains with occasional forks
			if r.Chance(4, 5) {
				par[i] = i - 1
			} else {
				par[i] = r.Intn(i)
			}
		default: // star of stars
			if i <= 5 {
				par[i] = 0
			} else {
				par[i] = r.Range(1, 5)
				if r.Chance(1, 3) {
					par[i] = r.Intn(i)
				}
			}
		}
	}
	g := c15NewGen(r, []uint64{0, 0, 1, 5, 1000}[r.Intn(5)], par)
	// malformed blocks
	for i := 1; i <= n; i++ {
		if r.Chance(1, 25) {
			switch r.Intn(3) {
			case 0:
				g.kind[i] = r.Range(3, 5)
			case 1:
				g.num[i] += uint64(r.Range(1, 2))
			default:
				g.par[i] = n + 7 // unknown parent
			}
		}
	}
	order := make([]int, n)
	for i := range order {
		order[i] = i + 1
	}
	if r.Chance(1, 3) { // perturb the order: some blocks arrive before their parent
		for k := 0; k < 1+r.Intn(3); k++ {
			i, j := r.Intn(n), r.Intn(n)
			order[i], order[j] = order[j], order[i]
		}
	}
	var ops []string
	nfin := r.Intn(4)
	finAt := map[int]bool{}
	for k := 0; k < nfin; k++ {
		finAt[r.Range(1, n)] = true
	}
	pairs := func(k int) {
		for ; k > 0; k-- {
			ops = append(ops, fmt.Sprintf("q%s.%s", vu.X(uint64(r.Intn(n+2))), vu.X(uint64(r.Intn(n+2)))))
		}
	}
	for k, i := range order {
		ops = append(ops, "a"+vu.X(uint64(i)))
		if r.Chance(1, 15) {
			ops = append(ops, "a"+vu.X(uint64(order[r.Intn(k+1)]))) // duplicate add
		}
		if finAt[k+1] {
			var target int
			switch r.Intn(8) {
			case 0:
				target = 0
			case 1:
				target = n + 3
			default:
				target = order[r.Intn(k+1)]
			}
			ops = append(ops, "f"+vu.X(uint64(target)), "s")
			pairs(6)
		}
	}
	ops = append(ops, "s")
	pairs(12)
	if r.Chance(1, 2) {
		ops = append(ops, "f"+vu.X(uint64(r.Range(1, n))), "s")
		pairs(8)
	}
	emit(g.blocks() + " " + strings.Join(ops, " "))
}

func c15Gen(r *vu.RNG, n int, emit func(string)) {
	// the confirmed pruning witness: four children of the root, the last one finalised
	emit("t 0 4 0.1.0.0 0.1.0.0 0.1.0.0 0.1.0.0 a1 a2 a3 a4 f4 s")
	emit("t 0 3 0.1.0.0 0.1.1.0 0.1.2.0 a1 a2 a3 f3 s")
	emit("t 0 5 0.1.0.0 0.1.0.0 0.1.0.0 0.1.0.0 0.1.0.0 a1 a2 a3 a4 a5 f2 s")
	emit("t 5 6 0.6.0.0 1.7.0.0 1.7.0.1 1.7.0.2 0.6.1.3 5.7.1.3 a1 a2 a3 a4 a5 a6 s q2.3 q3.6 q1.6 q6.1 f5 s f6 s")
	// block numbers next to the end of the uint range (2^64-3 .. 2^64-1, no wrap-around: the
	// explicit bound of C15_uint64_block_numbers holds)
	emit("t fffffffffffffffd 3 0.fffffffffffffffe.0.0 1.ffffffffffffffff.1.0 0.fffffffffffffffe.0.1 a1 a2 a3 q0.2 q2.3 q1.2 f1 q1.2 q0.1")
	// re-delivery of a block that already has a child (must be refused: ErrBlockExists)
	emit("t 0 3 0.1.0.0 1.2.0.0 2.3.1.0 a1 a2 a1 s q1.2 a3 a2 s q1.3 q2.3")
	// an abandoned fork that is higher than the finalised block: all of it is reported
	emit("t 0 6 0.1.0.0 1.2.0.0 0.1.0.0 3.2.0.0 4.3.0.0 5.4.0.0 a1 a2 a3 a4 a5 a6 f2 s")
	max := 5
	if vu.Thorough() {
		max = 7
	}
	c15Exhaustive(r.Fork(), max, emit)
	rr := r.Fork()
	for i := 0; i < n; i++ {
		c15Random(rr, emit)
	}
}

func TestVerifC15(t *testing.T) {
	vu.Run(t, "C15", 2000, c15Gen, c15Run)
}
