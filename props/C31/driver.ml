(* C31 driver: replays the Go trace (props/C31/harness_test.go) on the extracted model and
   evaluates the property predicates plan_ok_b / serve_spec_b (the ones C31_plan_partition and
   C31_serve are about) on the implementation's observables. *)
open Model
open Vutil

let n_of_i = n_of_int
let hx = hex_of_n

(* ---- plan *)
let render_plan p =
  if p = [] then "-" else String.concat "," (List.map (fun (s, m) -> hx s ^ ":" ^ hx m) p)
let parse_plan s =
  if s = "-" then Some [] else
  try Some (List.map (fun e -> match String.split_on_char ':' e with
      | [a; b] -> (n_of_hex a, n_of_hex b)
      | _ -> raise Exit) (String.split_on_char ',' s))
  with _ -> None

(* ---- stores *)
let root_parent = n_of_hex "ffffffffffff"
let build_blocks tree_fin =
  let tree, fin = (match String.index_opt tree_fin '@' with
    | Some i -> (String.sub tree_fin 0 i,
                 Some (int_of_n (n_of_hex (String.sub tree_fin (i + 1) (String.length tree_fin - i - 1)))))
    | None -> (tree_fin, None)) in
  let blocks = ref [ { b_hash = N0; b_parent = root_parent; b_number = N0; b_avail = n_of_i 3 } ] in
  let numbers = Hashtbl.create 64 in
  Hashtbl.replace numbers 0 0;
  let next = ref 1 in
  let forks = ref 0 in
  if tree <> "-" then
    List.iter (fun seg ->
      match String.split_on_char '.' seg with
      | [p; k; f] ->
        let p = int_of_n (n_of_hex p) and k = int_of_n (n_of_hex k) and f = int_of_n (n_of_hex f) in
        if p <> !next - 1 then incr forks;
        let parent = ref p in
        for _ = 1 to k do
          let id = !next in
          let num = Hashtbl.find numbers !parent + 1 in
          Hashtbl.replace numbers id num;
          blocks := { b_hash = n_of_i id; b_parent = n_of_i !parent; b_number = n_of_i num;
                      b_avail = n_of_i (3 lor (f land 0x1c)) } :: !blocks;
          parent := id; incr next
        done
      | _ -> fail "bad segment %s" seg) (String.split_on_char ';' tree);
  let all = List.rev !blocks in
  (* finalisation prunes every block that is neither an ancestor nor a descendant of the
     finalised block *)
  let kept = (match fin with
    | None -> all
    | Some f ->
      let parent = Hashtbl.create 64 in
      List.iter (fun b -> Hashtbl.replace parent (int_of_n b.b_hash) (int_of_n b.b_parent)) all;
      let rec is_anc a d = (* a is an ancestor of (or equal to) d *)
        a = d || (d <> 0 && Hashtbl.mem parent d && is_anc a (Hashtbl.find parent d)) in
      List.filter (fun b -> let i = int_of_n b.b_hash in is_anc i f || is_anc f i) all) in
  (kept, numbers, !forks + (match fin with Some _ -> 1000 | None -> 0))

let store_cache : (string * (blk list * (int, int) Hashtbl.t * int)) option ref = ref None
let blocks_of tree =
  match !store_cache with
  | Some (t, v) when t = tree -> v
  | _ -> let v = build_blocks tree in store_cache := Some (tree, v); v

let err_name c = match int_of_nat c with
  | 1 -> "invalid" | 2 -> "dir" | 3 -> "same" | 4 -> "toohigh" | 5 -> "nostart" | 6 -> "nodesc"
  | 7 -> "notchain" | 8 -> "range" | 9 -> "byNumber" | _ -> "other"

let render_resp = function
  | Ok l -> if l = [] then "ok -" else
      "ok " ^ String.concat "," (List.map (fun d -> hx d.d_hash ^ "/" ^ hx d.d_fields) l)
  | Err c -> "err:" ^ err_name c
  | Panic -> "panic"
  | OutOfFuel -> "fuel"

let parse_resp s =
  if s = "-" then Some [] else
  try Some (List.map (fun e -> match String.split_on_char '/' e with
      | [a; b] -> { d_hash = n_of_hex a; d_fields = n_of_hex b }   (* "!" or nil/unknown fail here *)
      | _ -> raise Exit) (String.split_on_char ',' s))
  with _ -> None

let wf_cache : (string * string * bool) option ref = ref None

let check inp obs =
  match split_ws inp with
  | ["plan"; a; b] ->
    let a = n_of_hex a and b = n_of_hex b in
    let m = render_plan (plan a b) in
    let prop, shape = (match parse_plan obs with
      | Some p -> ((if N.ltb b a then p = [] else plan_ok_b a b p),
                   (if p = [] then "empty" else if List.length p = 1 then "single"
                    else if List.for_all (fun (_, mx) -> mx = max_resp) p then "full-requests"
                    else "with-remainder"))
      | None -> (false, "malformed")) in
    { prop_ok = prop; model_eq = (m = obs); nontrivial = not (N.ltb b a); finding = "-";
      tags = "plan,plan-" ^ shape;
      detail = if prop && m = obs then "" else "model=" ^ m }
  | ["serve"; tree; dir; from; mx; fields; repeat] ->
    let (blocks, numbers, forks) = blocks_of tree in
    (match String.index_opt obs ' ' with
     | None -> { prop_ok = false; model_eq = false; nontrivial = false; finding = "-"; tags = "serve-malformed";
                 detail = "observed " ^ obs }
     | Some i ->
       let best = n_of_hex (String.sub obs 0 i) in
       let answer = String.sub obs (i + 1) (String.length obs - i - 1) in
       let s = mkstore blocks best in
       let wf = (match !wf_cache with
         | Some (t, b, v) when t = tree && b = hx best -> v
         | _ -> let v = wf_store_b s in wf_cache := Some (tree, hx best, v); v) in
       let fromv, byhash, onfork = (match from.[0] with
         | 'n' -> (FromNum (n_of_hex (String.sub from 1 (String.length from - 1))), false, false)
         | 'h' -> let id = n_of_hex (String.sub from 1 (String.length from - 1)) in
           (* on a fork = not an ancestor of the best block *)
           let onfork = (match is_desc s id best with Ok true -> false | _ -> true) in
           (FromHash id, true, onfork)
         | _ -> (FromHash (n_of_hex "deadbeef00"), true, false)) in
       let req = { r_fields = n_of_hex fields; r_from = fromv; r_dir = n_of_hex dir;
                   r_max = (if mx = "-" then None else Some (n_of_hex mx)) } in
       let seen = n_of_i (max 0 (int_of_n (n_of_hex repeat) - 1)) in
       let m = render_resp (serve s req seen) in
       let is_ok = String.length answer >= 3 && String.sub answer 0 3 = "ok " in
       let prop, why =
         if is_ok then
           (match parse_resp (String.sub answer 3 (String.length answer - 3)) with
            | Some r -> if serve_spec_b s req r then (true, "") else (false, "response violates serve_spec")
            | None -> (false, "response has an unknown/nil block or a field with foreign content"))
         else if String.length answer >= 4 && String.sub answer 0 4 = "err:" then (true, "")
         else (false, "no answer: " ^ answer) in
       let finding = if (not prop) && guard_desc_off_by_one s req then "desc-off-by-one" else "-" in
       let dname = (match int_of_n req.r_dir with 0 -> "asc" | 1 -> "desc" | _ -> "baddir") in
       let cls = if is_ok then (if answer = "ok -" then "empty" else "ok")
         else String.sub answer 4 (max 0 (String.length answer - 4)) in
       let nblocks = if is_ok && answer <> "ok -" then List.length (String.split_on_char ',' answer) else 0 in
       let tags = String.concat "," (List.filter (fun x -> x <> "") [
         "serve"; "serve-" ^ dname ^ "-" ^ (if byhash then "hash" else "num") ^ "-" ^ cls;
         (if onfork then "start-on-fork" else "");
         (if forks mod 1000 > 0 then "tree-with-forks" else "tree-linear");
         (if forks >= 1000 then "finalised-prefix" else "");
         (if nblocks = int_of_n max_resp then "full-128" else "");
         (if int_of_n seen > 0 then "repeated" else "");
         (if not wf then "store-not-wf" else "") ]) in
       ignore numbers;
       { prop_ok = prop && wf; model_eq = (m = answer); nontrivial = is_ok && nblocks > 0; finding;
         tags; detail = if prop && wf && m = answer then "" else Printf.sprintf "%s model=%s" why
             (if String.length m > 300 then String.sub m 0 300 ^ "..." else m) })
  | _ -> fail "C31: bad input %s" inp

(* ---- vm_compute cross-check (bin/check: vm_sample): coq/C31/VmCheck.v *)
let cn = coq_n
let clist f l = "[" ^ String.concat "; " (List.map f l) ^ "]"
let err_code = function
  | "invalid" -> 1 | "dir" -> 2 | "same" -> 3 | "toohigh" -> 4 | "nostart" -> 5 | "nodesc" -> 6
  | "notchain" -> 7 | "range" -> 8 | "byNumber" -> 9 | _ -> 10

let coq inp obs =
  try
    match split_ws inp with
    | ["plan"; a; b] ->
      (match parse_plan obs with
       | Some p -> Some (Printf.sprintf "vm_plan %s %s %s" (cn (n_of_hex a)) (cn (n_of_hex b))
                           (clist (fun (x, y) -> "(" ^ cn x ^ ", " ^ cn y ^ ")") p))
       | None -> None)
    | ["serve"; tree; dir; from; mx; fields; repeat] ->
      let (blocks, _, _) = blocks_of tree in
      if List.length blocks > 160 then None else
      (match String.index_opt obs ' ' with
       | None -> None
       | Some i ->
         let best = n_of_hex (String.sub obs 0 i) in
         let answer = String.sub obs (i + 1) (String.length obs - i - 1) in
         let fromv = (match from.[0] with
           | 'n' -> "FromNum " ^ cn (n_of_hex (String.sub from 1 (String.length from - 1)))
           | 'h' -> "FromHash " ^ cn (n_of_hex (String.sub from 1 (String.length from - 1)))
           | _ -> "FromHash " ^ cn (n_of_hex "deadbeef00")) in
         let seen = n_of_i (max 0 (int_of_n (n_of_hex repeat) - 1)) in
         let observed =
           if String.length answer >= 3 && String.sub answer 0 3 = "ok " then
             (match parse_resp (String.sub answer 3 (String.length answer - 3)) with
              | Some r -> "(Ok " ^ clist (fun d -> "(mkbd " ^ cn d.d_hash ^ " " ^ cn d.d_fields ^ ")") r ^ ")"
              | None -> raise Exit)
           else if String.length answer >= 4 && String.sub answer 0 4 = "err:" then
             Printf.sprintf "(Err %d)" (err_code (String.sub answer 4 (String.length answer - 4)))
           else raise Exit in
         Some (Printf.sprintf "vm_serve %s %s (mkreq %s (%s) %s %s) %s %s"
                 (clist (fun b -> Printf.sprintf "mkblk %s %s %s %s" (cn b.b_hash) (cn b.b_parent)
                                    (cn b.b_number) (cn b.b_avail)) blocks)
                 (cn best) (cn (n_of_hex fields)) fromv (cn (n_of_hex dir))
                 (if mx = "-" then "None" else "(Some " ^ cn (n_of_hex mx) ^ ")")
                 (cn seen) observed))
    | _ -> None
  with _ -> None

let () = run_driver ~coq check
