// C31 correspondence harness (injected into package dot/sync by `go test -overlay`).
//
// inputs (fields separated by one space, all numbers in hex):
//   plan <a> <b>
//        messages.NewAscendingBlockRequests(a, b, BootstrapRequestData)
//   serve <tree> <dir> <from> <max> <fields> <repeat>
//        a real dot/state BlockState is built from <tree>; a fresh SyncService (fresh LRU
//        de-dup cache) answers the request <repeat> times from the same peer; the last answer
//        is observed.
//     <tree>   segments separated by ';', each `p.k.f`: a chain of k new blocks, the first one a
//              child of block p, every block of the segment with flag bits f (1 = BABE primary
//              slot claim, 4 = receipt stored, 8 = message queue stored, 10 = justification
//              stored). Block ids are assigned sequentially from 1; block 0 is genesis. `-` is
//              the tree with genesis only. An optional suffix `@<id>` finalises block <id> after
//              the tree is built (BlockState.SetFinalisedHash: the chain up to <id> moves to
//              the database, the forks that do not contain <id> are pruned).
//     <dir>    0 ascending, 1 descending, other values are sent as they are
//     <from>   n<number> | h<block id> | u (a hash nobody knows)
//     <max>    - (nil) | <number>
//     <fields> the RequestedData byte
//     <repeat> how often the same request is made (>= 1)
// observables:
//   plan  -> <start>:<max>,<start>:<max>,...  ("-" for no request; a request that is not
//            ascending / by number / with the given field mask is rendered as "bad")
//   serve -> <best block id> <answer>
//     <answer> ok <id>/<fields>,...   the block data in response order; <fields> is the bit mask of
//                                   the fields present (1 header, 2 body, 4 receipt, 8 message
//                                   queue, 10 justification); "!" is appended when a present
//                                   field does not have the stored content. "ok -" = empty.
//              err:<class>            invalid | dir | same | toohigh | nostart | nodesc | notchain |
//                                   range | byNumber | other
package sync

import (
	"bytes"
	"encoding/json"
	"errors"
	"fmt"
	"strings"
	"testing"
	"time"

	"github.com/ChainSafe/gossamer/dot/network"
	"github.com/ChainSafe/gossamer/dot/network/messages"
	"github.com/ChainSafe/gossamer/dot/peerset"
	"github.com/ChainSafe/gossamer/dot/state"
	"github.com/ChainSafe/gossamer/dot/types"
	"github.com/ChainSafe/gossamer/internal/database"
	vu "github.com/ChainSafe/gossamer/internal/verifutil"
	"github.com/ChainSafe/gossamer/lib/common"
	"github.com/ChainSafe/gossamer/pkg/scale"
	"github.com/ChainSafe/gossamer/pkg/trie"
	"github.com/libp2p/go-libp2p/core/peer"
)

type c31Telemetry struct{}

func (c31Telemetry) SendMessage(json.Marshaler) {}

type c31Network struct{ reports int }

func (n *c31Network) AllConnectedPeersIDs() []peer.ID                   { return nil }
func (n *c31Network) ReportPeer(peerset.ReputationChange, peer.ID)      { n.reports++ }
func (n *c31Network) BlockAnnounceHandshake(*types.Header) error        { return nil }
func (n *c31Network) GossipMessageExcluding(network.NotificationsMessage, peer.ID) {}
func (n *c31Network) GetRequestResponseProtocol(string, time.Duration, uint64) *network.RequestResponseProtocol {
	return nil
}

type c31Seg struct{ parent, count, flags uint64 }

type c31Chain struct {
	bs     *state.BlockState
	hashes []common.Hash          // id -> hash
	ids    map[common.Hash]int    // hash -> id
	heads  []*types.Header        // id -> header
	bodies []*types.Body          // id -> body
	flags  []uint64               // id -> flags
	db     database.Database
}

func c31ParseTree(s string) []c31Seg {
	if s == "-" {
		return nil
	}
	var out []c31Seg
	for _, p := range strings.Split(s, ";") {
		f := strings.Split(p, ".")
		out = append(out, c31Seg{vu.UnX(f[0]), vu.UnX(f[1]), vu.UnX(f[2])})
	}
	return out
}

func c31Digest(primary bool, id int) types.Digest {
	babeDigest := types.NewBabeDigest()
	var err error
	if primary {
		err = babeDigest.SetValue(types.BabePrimaryPreDigest{AuthorityIndex: 0, SlotNumber: uint64(id)})
	} else {
		err = babeDigest.SetValue(types.BabeSecondaryPlainPreDigest{AuthorityIndex: 0, SlotNumber: uint64(id)})
	}
	if err != nil {
		panic(err)
	}
	enc, err := scale.Marshal(babeDigest)
	if err != nil {
		panic(err)
	}
	digest := types.NewDigest()
	if err = digest.Add(types.PreRuntimeDigest{ConsensusEngineID: types.BabeEngineID, Data: enc}); err != nil {
		panic(err)
	}
	return digest
}

func c31Payload(kind byte, id int) []byte { return []byte{kind, byte(id), byte(id >> 8), 0x5a} }

var c31BaseDir string

func c31Build(treeAndFin string) *c31Chain {
	tree, fin := treeAndFin, ""
	if i := strings.IndexByte(treeAndFin, '@'); i >= 0 {
		tree, fin = treeAndFin[:i], treeAndFin[i+1:]
	}
	dir := fmt.Sprintf("%s/db-%d", c31BaseDir, time.Now().UnixNano())
	db, err := database.LoadDatabase(dir, true)
	if err != nil {
		panic(err)
	}
	genesis := types.NewHeader(common.NewHash([]byte{0}), trie.EmptyHash, trie.EmptyHash, 0, types.NewDigest())
	bs, err := state.NewBlockStateFromGenesis(db, state.NewTries(), genesis, c31Telemetry{})
	if err != nil {
		panic(err)
	}
	c := &c31Chain{bs: bs, ids: map[common.Hash]int{}, db: db}
	add := func(h *types.Header, b *types.Body, fl uint64) {
		c.ids[h.Hash()] = len(c.hashes)
		c.hashes = append(c.hashes, h.Hash())
		c.heads = append(c.heads, h)
		c.bodies = append(c.bodies, b)
		c.flags = append(c.flags, fl)
	}
	add(genesis, types.NewBody([]types.Extrinsic{}), 0)
	for _, sg := range c31ParseTree(tree) {
		parent := int(sg.parent)
		for k := uint64(0); k < sg.count; k++ {
			id := len(c.hashes)
			var er common.Hash
			copy(er[:], c31Payload(0xee, id))
			h := &types.Header{
				ParentHash:     c.hashes[parent],
				Number:         c.heads[parent].Number + 1,
				StateRoot:      trie.EmptyHash,
				ExtrinsicsRoot: er,
				Digest:         c31Digest(sg.flags&1 != 0, id),
			}
			body := types.NewBody([]types.Extrinsic{c31Payload(0xb0, id)})
			blk := &types.Block{Header: *h, Body: *body}
			// deterministic arrival times (AddBlock would use time.Now())
			if err := bs.AddBlockWithArrivalTime(blk, time.Unix(int64(1_000_000+id), 0)); err != nil {
				panic(fmt.Sprintf("adding block %d: %v", id, err))
			}
			hash := blk.Header.Hash()
			if sg.flags&4 != 0 {
				if err := bs.SetReceipt(hash, c31Payload(0x04, id)); err != nil {
					panic(err)
				}
			}
			if sg.flags&8 != 0 {
				if err := bs.SetMessageQueue(hash, c31Payload(0x08, id)); err != nil {
					panic(err)
				}
			}
			if sg.flags&0x10 != 0 {
				if err := bs.SetJustification(hash, c31Payload(0x10, id)); err != nil {
					panic(err)
				}
			}
			add(&blk.Header, body, sg.flags)
			parent = id
		}
	}
	if fin != "" {
		if err := bs.SetFinalisedHash(c.hashes[vu.UnX(fin)], 1, 1); err != nil {
			panic(fmt.Sprintf("finalising block %s: %v", fin, err))
		}
	}
	return c
}

// memoised construction: the chain is only read by CreateBlockResponse
var (
	c31CacheKey string
	c31Cache    *c31Chain
)

func c31Get(tree string) *c31Chain {
	if c31Cache != nil && c31CacheKey == tree {
		return c31Cache
	}
	if c31Cache != nil {
		_ = c31Cache.db.Close()
	}
	c31Cache = c31Build(tree)
	c31CacheKey = tree
	return c31Cache
}

func c31ErrClass(err error) string {
	msg := err.Error()
	switch {
	case errors.Is(err, errMaxNumberOfSameRequest):
		return "err:same"
	case errors.Is(err, ErrInvalidBlockRequest):
		return "err:invalid"
	case errors.Is(err, errInvalidRequestDirection):
		return "err:dir"
	case errors.Is(err, errRequestStartTooHigh):
		return "err:toohigh"
	case errors.Is(err, errFailedToGetDescendant):
		return "err:nodesc"
	case errors.Is(err, errStartAndEndNotOnChain):
		return "err:notchain"
	case strings.HasPrefix(msg, "failed to get start block"):
		return "err:nostart"
	case strings.HasPrefix(msg, "retrieving range"):
		return "err:range"
	case strings.HasPrefix(msg, "getting end block"):
		return "err:byNumber"
	}
	return "err:other"
}

func c31Render(c *c31Chain, resp *messages.BlockResponseMessage) string {
	if len(resp.BlockData) == 0 {
		return "ok -"
	}
	parts := make([]string, 0, len(resp.BlockData))
	for _, bd := range resp.BlockData {
		if bd == nil {
			parts = append(parts, "nil")
			continue
		}
		id, known := c.ids[bd.Hash]
		if !known {
			parts = append(parts, "unknown")
			continue
		}
		var mask uint64
		good := true
		if bd.Header != nil {
			mask |= 1
			good = good && bd.Header.Hash() == c.hashes[id] && bd.Header.Number == c.heads[id].Number &&
				bd.Header.ParentHash == c.heads[id].ParentHash
		}
		if bd.Body != nil {
			mask |= 2
			want := *c.bodies[id]
			got := *bd.Body
			good = good && len(want) == len(got)
			for i := range want {
				good = good && i < len(got) && bytes.Equal(want[i], got[i])
			}
		}
		if bd.Receipt != nil {
			mask |= 4
			good = good && bytes.Equal(*bd.Receipt, c31Payload(0x04, id))
		}
		if bd.MessageQueue != nil {
			mask |= 8
			good = good && bytes.Equal(*bd.MessageQueue, c31Payload(0x08, id))
		}
		if bd.Justification != nil {
			mask |= 0x10
			good = good && bytes.Equal(*bd.Justification, c31Payload(0x10, id))
		}
		s := vu.X(uint64(id)) + "/" + vu.X(mask)
		if !good {
			s += "!"
		}
		parts = append(parts, s)
	}
	return "ok " + strings.Join(parts, ",")
}

func c31Run(in string) string {
	f := strings.Split(in, " ")
	switch f[0] {
	case "plan":
		a, b := uint(vu.UnX(f[1])), uint(vu.UnX(f[2]))
		reqs := messages.NewAscendingBlockRequests(a, b, messages.BootstrapRequestData)
		if len(reqs) == 0 {
			return "-"
		}
		parts := make([]string, 0, len(reqs))
		for _, r := range reqs {
			start, isNum := r.StartingBlock.RawValue().(uint)
			if r == nil || !isNum || r.Direction != messages.Ascending || r.Max == nil ||
				r.RequestedData != messages.BootstrapRequestData {
				parts = append(parts, "bad")
				continue
			}
			parts = append(parts, vu.X(uint64(start))+":"+vu.X(uint64(*r.Max)))
		}
		return strings.Join(parts, ",")
	case "serve":
		c := c31Get(f[1])
		req := &messages.BlockRequestMessage{
			RequestedData: byte(vu.UnX(f[5])),
			Direction:     messages.SyncDirection(byte(vu.UnX(f[2]))),
		}
		switch f[3][0] {
		case 'n':
			req.StartingBlock = *messages.NewFromBlock(uint(vu.UnX(f[3][1:])))
		case 'h':
			req.StartingBlock = *messages.NewFromBlock(c.hashes[vu.UnX(f[3][1:])])
		default:
			req.StartingBlock = *messages.NewFromBlock(common.Hash{0xde, 0xad, 0xbe, 0xef})
		}
		if f[4] != "-" {
			m := uint32(vu.UnX(f[4]))
			req.Max = &m
		}
		repeat := int(vu.UnX(f[6]))
		svc := NewSyncService(WithBlockState(c.bs), WithNetwork(&c31Network{}))
		best := c.ids[c.bs.BestBlockHash()]
		var (
			resp *messages.BlockResponseMessage
			err  error
		)
		for i := 0; i < repeat; i++ {
			resp, err = svc.CreateBlockResponse(peer.ID("verif-peer"), req)
		}
		if err != nil {
			return vu.X(uint64(best)) + " " + c31ErrClass(err)
		}
		return vu.X(uint64(best)) + " " + c31Render(c, resp)
	}
	return "err:badinput"
}

// ---- generation

func c31Pick(r *vu.RNG, xs ...uint64) uint64 { return xs[r.Intn(len(xs))] }

func c31GenTree(r *vu.RNG) (tree string, numbers []uint64, mainLen uint64) {
	// main chain
	var L uint64
	switch r.Intn(10) {
	case 0:
		L = 0
	case 1, 2:
		L = uint64(r.Range(1, 6))
	case 3, 4, 5:
		L = c31Pick(r, 126, 127, 128, 129, 130, 131, 255, 256, 257, 258, 260)
	default:
		L = uint64(r.Range(1, 300))
	}
	numbers = []uint64{0}
	children := map[uint64]int{}
	var segs []string
	flagsOf := func() uint64 {
		fl := uint64(0)
		if r.Chance(2, 3) {
			fl |= 1
		}
		if r.Chance(1, 3) {
			fl |= uint64(r.Intn(8)) << 2
		}
		return fl
	}
	addChain := func(parent uint64, k uint64) uint64 {
		// split into 1..3 segments so that flags vary along a chain
		last := parent
		for k > 0 {
			part := k
			if k > 1 && r.Chance(1, 2) {
				part = uint64(r.Range(1, int(k)))
			}
			segs = append(segs, fmt.Sprintf("%x.%x.%x", last, part, flagsOf()))
			for i := uint64(0); i < part; i++ {
				id := uint64(len(numbers))
				children[last]++
				numbers = append(numbers, numbers[last]+1)
				last = id
			}
			k -= part
		}
		return last
	}
	if L > 0 {
		addChain(0, L)
	}
	mainLen = L
	nforks := 0
	switch r.Intn(4) {
	case 0:
		nforks = 0
	case 1:
		nforks = 1
	default:
		nforks = r.Range(1, 4)
	}
	for i := 0; i < nforks; i++ {
		parent := uint64(r.Intn(len(numbers)))
		var k uint64
		switch r.Intn(6) {
		case 0: // reaches exactly the main height: fork-choice tie on number
			if L > numbers[parent] {
				k = L - numbers[parent]
			} else {
				k = 1
			}
		case 1: // longer than the main chain
			if L >= numbers[parent] {
				k = L - numbers[parent] + uint64(r.Range(1, 3))
			} else {
				k = 2
			}
		case 2:
			k = uint64(r.Range(100, 140))
		default:
			k = uint64(r.Range(1, 5))
		}
		if uint64(len(numbers))+k > 700 {
			k = 1
		}
		addChain(parent, k)
	}
	if len(segs) == 0 {
		return "-", numbers, mainLen
	}
	tree = strings.Join(segs, ";")
	wide := false // a block with three or more children: pruning them is property C15's subject
	for _, c := range children {
		if c >= 3 {
			wide = true
		}
	}
	if r.Chance(1, 4) && !wide {
		// finalise a block: mostly on the main chain, sometimes anywhere (a fork)
		f := uint64(r.Intn(len(numbers)-1) + 1)
		if r.Chance(2, 3) && mainLen > 0 {
			f = uint64(r.Intn(int(mainLen)) + 1)
		}
		tree += fmt.Sprintf("@%x", f)
	}
	return tree, numbers, mainLen
}

func c31GenReq(r *vu.RNG, numbers []uint64, mainLen uint64) string {
	dir := uint64(r.Intn(2))
	if r.Chance(1, 40) {
		dir = c31Pick(r, 2, 3, 0xff)
	}
	var from string
	var startNum uint64
	switch r.Intn(10) {
	case 0, 1, 2, 3:
		switch r.Intn(5) {
		case 0:
			startNum = c31Pick(r, 0, 1, 2)
		case 1:
			startNum = mainLen + uint64(r.Intn(4)) - 1
			if mainLen == 0 && startNum > 10 {
				startNum = 0
			}
		case 2:
			startNum = c31Pick(r, 126, 127, 128, 129, 130)
		case 3:
			startNum = mainLen + c31Pick(r, 1, 2, 100, 0xffffffff)
		default:
			startNum = uint64(r.Intn(int(mainLen) + 2))
		}
		from = "n" + vu.X(startNum)
	case 9:
		from = "u"
		if r.Chance(1, 2) {
			from = "h0"
		}
	default:
		id := r.Intn(len(numbers))
		if r.Chance(1, 3) { // prefer late ids = fork blocks
			id = len(numbers) - 1 - r.Intn(1+len(numbers)/4)
		}
		startNum = numbers[id]
		from = "h" + vu.X(uint64(id))
	}
	mx := "-"
	switch r.Intn(8) {
	case 0:
	case 1:
		mx = vu.X(c31Pick(r, 0, 1, 2, 3))
	case 2:
		mx = vu.X(c31Pick(r, 126, 127, 128, 129, 1000, 0xffffffff))
	case 3, 4: // the boundary of the descending end computation: start == max+1
		d := uint64(r.Intn(3))
		if startNum+1 >= d {
			mx = vu.X((startNum + 1 - d) & 0xffffffff)
		}
	case 5:
		if mainLen >= startNum {
			mx = vu.X(mainLen - startNum + uint64(r.Intn(3)))
		}
	default:
		mx = vu.X(uint64(r.Range(1, 140)))
	}
	fields := uint64(r.Intn(32))
	switch r.Intn(12) {
	case 0:
		fields = 0
	case 1:
		fields = c31Pick(r, 0x20, 0x21, 0x40, 0x80, 0xff, 0xe0, 0x93)
	case 2, 3:
		fields = uint64(messages.BootstrapRequestData)
	case 4:
		fields = 0x1f
	}
	if fields == 0 && r.Chance(3, 4) {
		fields = 1
	}
	repeat := uint64(1)
	if r.Chance(1, 12) {
		repeat = uint64(r.Range(2, 5))
	}
	return fmt.Sprintf("%x %s %s %x %x", dir, from, mx, fields, repeat)
}

func c31Gen(r *vu.RNG, n int, emit func(string)) {
	// plans: every start in the boundary set with every length 0..600 would be 4 200 cases; the quick
	// tier takes the boundary lengths, the thorough tier all of them
	starts := []uint64{0, 1, 2, 127, 128, 129}
	for _, a := range starts {
		for l := uint64(0); l <= 600; l++ {
			boundary := l <= 3 || l%128 <= 1 || l%128 == 127
			if boundary || vu.Thorough() {
				emit(fmt.Sprintf("plan %x %x", a, a+l))
			}
		}
	}
	emit("plan 5 4")
	emit("plan 1 0")
	emit(fmt.Sprintf("plan %x %x", uint64(1)<<63, (uint64(1)<<63)+300))
	emit(fmt.Sprintf("plan %x %x", ^uint64(0)-300, ^uint64(0)))
	emit(fmt.Sprintf("plan %x %x", ^uint64(0), ^uint64(0)))
	if vu.Thorough() {
		for a := uint64(0); a <= 400; a += 1 {
			for b := a; b <= 400; b++ {
				emit(fmt.Sprintf("plan %x %x", a, b))
			}
		}
	}
	np := n / 8
	for i := 0; i < np; i++ {
		var a uint64
		switch r.Intn(4) {
		case 0:
			a = uint64(r.Intn(4))
		case 1:
			a = uint64(r.Intn(1000))
		case 2:
			a = r.U64() >> uint(r.Intn(64))
		default:
			a = uint64(128*r.Intn(6)) + uint64(r.Intn(3)) - 1
			if a > 1<<62 {
				a = 0
			}
		}
		l := uint64(r.Intn(700))
		if r.Chance(1, 3) {
			l = uint64(128*r.Intn(6)) + uint64(r.Intn(3))
		}
		if a+l < a {
			l = ^uint64(0) - a
		}
		emit(fmt.Sprintf("plan %x %x", a, a+l))
	}
	// serve: several requests per generated chain
	perTree := 25
	for i := 0; i < n-np; {
		tree, numbers, mainLen := c31GenTree(r)
		for j := 0; j < perTree && i < n-np; j++ {
			emit("serve " + tree + " " + c31GenReq(r, numbers, mainLen))
			i++
		}
	}
}

func TestVerifC31(t *testing.T) {
	c31BaseDir = t.TempDir()
	defer func() {
		if c31Cache != nil {
			_ = c31Cache.db.Close()
			c31Cache = nil
		}
	}()
	vu.Run(t, "C31", 4000, c31Gen, c31Run)
}
