// C25 correspondence harness (injected into package lib/babe by `go test -overlay`).
//
// inputs (fields separated by one space, all numbers in hex, n signed):
//   thr <c1> <c2> <n>
//   mono <c1> <c2> <c1'> <c2'> <n>
//   prim <seed hex32> <randomness hex32> <slot> <epoch> <thr-upper> <thr-lower>
//   sec <randomness hex32> <slot> <n>
// observables:
//   thr  -> <res> <pp bits> <theta bits> <pow bits> <acc>
//           res = ok:<upper>,<lower> | err:zero | err:gt1 | err:16 | err:other | panic
//           pp/theta/pow: float64 bit patterns of 1-c, 1/n and math.Pow(1-c, 1/n) as the harness
//           recomputes them (the oracle for the model's pow64); "-" when c1 or c2 is 0
//           acc = a<k> : the distance |threshold/2^128 - (1-(1-c)^(1/n))| against a 512-bit
//           big.Float evaluation (c the float64 ratio, 1/n exact) is at most 2^-k and, unless
//           k = 80 (the cap), more than 2^-(k+1); k < 50 is a failure (C25_error_bound gives
//           eps + 2^-51 + 2^-128 with eps the error of math.Pow); "-" when not evaluated
//   mono -> the two thr observables (10 fields)
//   prim -> <0|1> <res hex16>   result of checkPrimaryThreshold and the 16 VRF in/out bytes
//           the harness obtains from AttachInput/MakeBytes itself; or err
//   sec  -> ok:<idx> | err | panic
package babe

import (
	"errors"
	"fmt"
	"math"
	"math/big"
	"strings"
	"testing"

	vu "github.com/ChainSafe/gossamer/internal/verifutil"
	"github.com/ChainSafe/gossamer/lib/crypto/sr25519"
	"github.com/ChainSafe/gossamer/pkg/scale"
)

func c25Call(c1, c2 uint64, n int) (res string) {
	defer func() {
		if p := recover(); p != nil {
			res = "panic"
		}
	}()
	thr, err := CalculateThreshold(c1, c2, n)
	if err != nil {
		switch {
		case errors.Is(err, ErrThresholdOneIsZero):
			return "err:zero"
		case strings.Contains(err.Error(), "greater than 1"):
			return "err:gt1"
		case strings.Contains(err.Error(), "16 bytes"):
			return "err:16"
		}
		return "err:other"
	}
	return "ok:" + vu.X(thr.Upper) + "," + vu.X(thr.Lower)
}

// c25Root returns x^(1/n) for 0 <= x <= 1 with ~500 correct bits (Newton on y^n = x).
func c25Root(x *big.Float, n int64) *big.Float {
	const prec = 512
	if x.Sign() == 0 {
		return new(big.Float).SetPrec(prec)
	}
	xf, _ := x.Float64()
	y := new(big.Float).SetPrec(prec).SetFloat64(math.Pow(xf, 1/float64(n)))
	nf := new(big.Float).SetPrec(prec).SetInt64(n)
	powi := func(b *big.Float, e int64) *big.Float {
		r := new(big.Float).SetPrec(prec).SetInt64(1)
		a := new(big.Float).SetPrec(prec).Set(b)
		for e > 0 {
			if e&1 == 1 {
				r.Mul(r, a)
			}
			a.Mul(a, a)
			e >>= 1
		}
		return r
	}
	for i := 0; i < 7; i++ {
		ym := powi(y, n-1)                         // y^(n-1)
		yn := new(big.Float).SetPrec(prec).Mul(ym, y) // y^n
		num := yn.Sub(yn, x)
		den := ym.Mul(ym, nf)
		y.Sub(y, num.Quo(num, den))
	}
	return y
}

func c25Acc(res string, c float64, n int) string {
	if !strings.HasPrefix(res, "ok:") || n < 1 || n > 1<<32 || c > 1 {
		return "-"
	}
	f := strings.Split(res[3:], ",")
	t := new(big.Int).Lsh(new(big.Int).SetUint64(vu.UnX(f[0])), 64)
	t.Add(t, new(big.Int).SetUint64(vu.UnX(f[1])))
	const prec = 512
	got := new(big.Float).SetPrec(prec).SetInt(t)
	got.SetMantExp(got, -128)
	one := new(big.Float).SetPrec(prec).SetInt64(1)
	x := new(big.Float).SetPrec(prec).SetFloat64(c)
	x.Sub(one, x)
	want := new(big.Float).SetPrec(prec).Sub(one, c25Root(x, int64(n)))
	d := new(big.Float).SetPrec(prec).Sub(got, want)
	d.Abs(d)
	// the largest k <= 80 with d <= 2^-k
	k := 80
	if d.Sign() != 0 {
		k = -d.MantExp(nil) // d = m * 2^e with 0.5 <= m < 1: d <= 2^e, d > 2^(e-1)
		if k > 80 {
			k = 80
		}
		if k < 0 {
			k = 0
		}
	}
	return fmt.Sprintf("a%d", k)
}

func c25Thr(c1, c2 uint64, n int) string {
	res := c25Call(c1, c2, n)
	if c1 == 0 || c2 == 0 {
		return res + " - - - -"
	}
	c := float64(c1) / float64(c2)
	theta := float64(1) / float64(n)
	pp := 1 - c
	pw := math.Pow(pp, theta)
	return fmt.Sprintf("%s %s %s %s %s", res, vu.X(math.Float64bits(pp)), vu.X(math.Float64bits(theta)),
		vu.X(math.Float64bits(pw)), c25Acc(res, c, n))
}

// c25InOut computes the 16 VRF in/out bytes (as a little-endian number) for a key seed and transcript.
func c25InOut(seed, rnd []byte, slot, epoch uint64) *big.Int {
	kp, err := sr25519.NewKeypairFromSeed(seed)
	if err != nil {
		return nil
	}
	var rr Randomness
	copy(rr[:], rnd)
	out, _, err := kp.VrfSign(makeTranscript(rr, slot, epoch))
	if err != nil {
		return nil
	}
	inout, err := sr25519.AttachInput(out, kp.Public().(*sr25519.PublicKey), makeTranscript(rr, slot, epoch))
	if err != nil {
		return nil
	}
	res, err := inout.MakeBytes(16, babeVRFPrefix)
	if err != nil {
		return nil
	}
	be := make([]byte, 16)
	for i := range res {
		be[15-i] = res[i]
	}
	return new(big.Int).SetBytes(be)
}

func c25Hex32(s string) (out [32]byte) {
	copy(out[:], vu.UnHex(s))
	return
}

func c25Run(in string) string {
	f := strings.Split(in, " ")
	switch f[0] {
	case "thr":
		return c25Thr(vu.UnX(f[1]), vu.UnX(f[2]), int(vu.UnXI(f[3])))
	case "mono":
		n := int(vu.UnXI(f[5]))
		return c25Thr(vu.UnX(f[1]), vu.UnX(f[2]), n) + " " + c25Thr(vu.UnX(f[3]), vu.UnX(f[4]), n)
	case "prim":
		kp, err := sr25519.NewKeypairFromSeed(vu.UnHex(f[1]))
		if err != nil {
			return "err"
		}
		var rnd Randomness = c25Hex32(f[2])
		slot, epoch := vu.UnX(f[3]), vu.UnX(f[4])
		thr := &scale.Uint128{Upper: vu.UnX(f[5]), Lower: vu.UnX(f[6])}
		out, _, err := kp.VrfSign(makeTranscript(rnd, slot, epoch))
		if err != nil {
			return "err"
		}
		pub := kp.Public().(*sr25519.PublicKey)
		ok, err := checkPrimaryThreshold(rnd, slot, epoch, out, thr, pub)
		if err != nil {
			return "err"
		}
		inout, err := sr25519.AttachInput(out, pub, makeTranscript(rnd, slot, epoch))
		if err != nil {
			return "err"
		}
		res, err := inout.MakeBytes(16, babeVRFPrefix)
		if err != nil {
			return "err"
		}
		b := "0"
		if ok {
			b = "1"
		}
		return b + " " + vu.Hex(res)
	case "sec":
		var rnd Randomness = c25Hex32(f[1])
		idx, err := getSecondarySlotAuthor(vu.UnX(f[2]), int(vu.UnXI(f[3])), rnd)
		if err != nil {
			return "err"
		}
		return "ok:" + vu.X(uint64(idx))
	}
	return "err:bad-input"
}

func c25U64(r *vu.RNG) uint64 {
	switch r.Intn(8) {
	case 0:
		return uint64(1 + r.Intn(16))
	case 1:
		return uint64(1 + r.Intn(10000))
	case 2: // around a power of two (float64 rounding of uint64 at and above 2^53)
		k := uint(r.Intn(64))
		v := uint64(1) << k
		return v + uint64(r.Intn(5)) - 2
	case 3: // 53/54-bit values: ties of the uint64 -> float64 conversion
		return (uint64(1) << 53) + uint64(r.Intn(64))
	case 4:
		return ^uint64(0) - uint64(r.Intn(3000))
	case 5:
		return r.U64() >> uint(r.Intn(64))
	case 6:
		return uint64(r.Intn(3)) // 0,1,2
	default:
		return r.U64()
	}
}

func c25N(r *vu.RNG) int64 {
	switch r.Intn(10) {
	case 0:
		return 1
	case 1:
		return 2
	case 2:
		return 3
	case 3:
		return int64(1 + r.Intn(20))
	case 4:
		return int64(1 + r.Intn(1000))
	case 5:
		return 1 << 20
	case 6:
		return int64(1 + r.Intn(1<<22))
	case 7:
		return int64(1) << uint(r.Intn(33))
	case 8: // outside the property's quantifier (n >= 1); the model still mirrors the code
		return int64(-r.Intn(4))
	default:
		return int64(1 + r.Intn(300))
	}
}

// a pair (c1, c2), mostly with c1 <= c2
func c25Pair(r *vu.RNG) (uint64, uint64) {
	switch r.Intn(10) {
	case 0: // saturation
		v := c25U64(r)
		return v, v
	case 1: // just below / above 1
		v := c25U64(r)
		if r.Chance(1, 2) {
			return v - 1, v
		}
		return v + 1, v
	case 2: // tiny ratio
		return uint64(1 + r.Intn(3)), uint64(1) << uint(40+r.Intn(24))
	case 3, 4: // the usual configurations: small over small
		c2 := uint64(1 + r.Intn(64))
		return uint64(1 + r.Intn(int(c2))), c2
	case 5: // ratio near 1/2 (Sterbenz boundary of 1-c)
		v := uint64(1+r.Intn(1<<30)) * 2
		return v/2 + uint64(r.Intn(3)) - 1, v
	default:
		a, b := c25U64(r), c25U64(r)
		if a > b && r.Chance(9, 10) {
			a, b = b, a
		}
		return a, b
	}
}

func c25Gen(r *vu.RNG, n int, emit func(string)) {
	// fixed boundary cases
	for _, c := range [][3]int64{{1, 2, 3}, {1, 4, 1}, {1, 1, 3}, {1, 1, 1}, {0, 0, 0}, {5, 2, 0}, {0, 1, 1}, {1, 0, 1},
		{1, 4, 0}, {1, 1, -1}, {1, 4, -1}, {1, 3, 2}, {1, 1 << 62, 1}, {1, 1 << 62, 1000}, {(1 << 53) + 1, (1 << 53) + 1, 7}} {
		emit(fmt.Sprintf("thr %s %s %s", vu.X(uint64(c[0])), vu.X(uint64(c[1])), vu.XI(c[2])))
	}
	emit("thr ffffffffffffffff ffffffffffffffff 1")
	emit("thr fffffffffffffbff ffffffffffffffff 1") // float64(c1) = float64(c2) although c1 < c2
	emit("thr fffffffffffffbff ffffffffffffffff 5")
	emit("thr ffffffffffffffff fffffffffffffbff 5") // c1 > c2 but the float ratio is 1: no error
	for i := 0; i < n; i++ {
		switch k := r.Intn(20); {
		case k < 9:
			a, b := c25Pair(r)
			emit(fmt.Sprintf("thr %s %s %s", vu.X(a), vu.X(b), vu.XI(c25N(r))))
		case k < 13:
			a, b := c25Pair(r)
			c, d := a, b
			switch r.Intn(4) {
			case 0: // same denominator, neighbouring numerators
				c = a + uint64(r.Intn(3))
			case 1:
				c, d = c25Pair(r)
			case 2: // same numerator
				d = b - uint64(r.Intn(3))
			default:
				c = a + uint64(r.Intn(1000))
			}
			nn := c25N(r)
			if nn < 1 {
				nn = 1
			}
			emit(fmt.Sprintf("mono %s %s %s %s %s", vu.X(a), vu.X(b), vu.X(c), vu.X(d), vu.XI(nn)))
		case k < 14:
			// threshold boundaries for the 128-bit comparison
			var up, lo uint64
			switch r.Intn(5) {
			case 0:
				up, lo = 0, 0
			case 1:
				up, lo = ^uint64(0), ^uint64(0)
			case 2:
				up, lo = uint64(1)<<63, 0
			case 3:
				up, lo = 0, r.U64()
			default:
				up, lo = r.U64(), r.U64()
			}
			seed, rnd := r.Bytes(32), r.Bytes(32)
			slot, epoch := r.U64()>>uint(r.Intn(64)), uint64(r.Intn(100))
			if r.Chance(1, 2) {
				// boundary-directed: the threshold is the VRF in/out value itself, or one off
				// (the VRF output is a deterministic function of key and transcript)
				if v := c25InOut(seed, rnd, slot, epoch); v != nil {
					v.Add(v, big.NewInt(int64(r.Intn(3)-1)))
					if v.Sign() >= 0 && v.BitLen() <= 128 {
						up = new(big.Int).Rsh(v, 64).Uint64()
						lo = new(big.Int).And(v, new(big.Int).SetUint64(^uint64(0))).Uint64()
					}
				}
			}
			emit(fmt.Sprintf("prim %s %s %s %s %s %s", vu.Hex(seed), vu.Hex(rnd),
				vu.X(slot), vu.X(epoch), vu.X(up), vu.X(lo)))
		default:
			var rnd []byte
			switch r.Intn(3) {
			case 0:
				rnd = make([]byte, 32)
			default:
				rnd = r.Bytes(32)
			}
			var slot uint64
			switch r.Intn(4) {
			case 0:
				slot = uint64(r.Intn(256))
			case 1:
				slot = uint64(1)<<uint(8*r.Intn(8)) + uint64(r.Intn(3)) - 1
			default:
				slot = r.U64() >> uint(r.Intn(64))
			}
			var nn int64
			switch r.Intn(8) {
			case 0:
				nn = 1
			case 1:
				nn = int64(1 + r.Intn(5))
			case 2:
				nn = int64(1 + r.Intn(1000))
			case 3:
				nn = int64(1) << uint(r.Intn(33))
			case 4:
				nn = int64(r.U64() >> uint(1+r.Intn(63))) // up to 2^63-1: truncation by uint32
			case 5:
				nn = -int64(r.Intn(4)) // 0 panics; negative: Euclidean modulus
			default:
				nn = int64(1 + r.Intn(300))
			}
			emit(fmt.Sprintf("sec %s %s %s", vu.Hex(rnd), vu.X(slot), vu.XI(nn)))
		}
	}
}

func TestVerifC25(t *testing.T) {
	vu.Run(t, "C25", 6000, c25Gen, c25Run)
}
