(* C25 driver: replays the Go trace on the extracted model.  math.Pow is supplied to the model
   as the oracle recorded by the harness (bit patterns of its two arguments and of its result);
   the model recomputes the arguments itself and the oracle answers only for exactly those. *)
open Model
open Vutil

let two64 = n_of_hex "10000000000000000"
let str_thr (o : n outcome) = match o with
  | Ok v -> let (up, lo) = split128 v in
            "ok:" ^ hex_of_n up ^ "," ^ hex_of_n lo
  | Err c -> let c = int_of_nat c in
             if c = int_of_nat err_zero then "err:zero" else if c = int_of_nat err_gt_one then "err:gt1"
             else if c = int_of_nat err_16_bytes then "err:16" else "err:other"
  | Panic -> "panic"
  | OutOfFuel -> "fuel"

(* one thr observable: returns (model string, mismatch flag, tags, c as float, observed result) *)
let thr_model c1 c2 nn obs5 =
  match obs5 with
  | [res; pp; th; pw; acc] ->
    let c1z = z_of_hex c1 and c2z = z_of_hex c2 and nz = z_of_hex nn in
    let mismatch = ref false in
    let used = ref false in
    let pow x y =
      used := true;
      if pp <> "-" && f64_bits x = n_of_hex pp && f64_bits y = n_of_hex th then f64_of_bits (n_of_hex pw)
      else (mismatch := true; f64_nan) in
    let m = str_thr (calculate_threshold pow c1z c2z nz) in
    let c = ratio_of c1z c2z in
    let ncls = (match nz with Z0 -> "n=0" | Zneg _ -> "n<0" | Zpos XH -> "n=1" | Zpos _ ->
                 if int_of_z (if Z.ltb nz (z_of_int 1000000000) then nz else z_of_int 1000000000) > 1000 then "n>1000" else "n-small") in
    let rcls = (match String.index_opt m ':' with
                | Some i when String.sub m 0 i = "ok" ->
                  if m = "ok:ffffffffffffffff,ffffffffffffffff" then "thr-max" else if m = "ok:0,0" then "thr-zero" else "thr-ok"
                | _ -> "thr-" ^ m) in
    let tags = String.concat "," ([rcls; ncls] @ (if acc = "1" then ["acc-checked"] else []) @ (if !used then ["pow-used"] else [])) in
    (m ^ " " ^ String.concat " " [pp; th; pw], !mismatch, tags, c, res, acc)
  | _ -> fail "C25: bad thr observable"

let value_of_res res =
  if String.length res > 3 && String.sub res 0 3 = "ok:" then
    (match String.split_on_char ',' (String.sub res 3 (String.length res - 3)) with
     | [u; l] -> Some (N.add (N.mul (n_of_hex u) two64) (n_of_hex l))
     | _ -> None)
  else None

let check inp obs =
  let f = split_ws inp and o = split_ws obs in
  match f with
  | ["thr"; c1; c2; nn] ->
    (match o with
     | [res; pp; th; pw; acc] ->
       let (m, mismatch, tags, _, _, _) = thr_model c1 c2 nn o in
       let eq = (m = String.concat " " [res; pp; th; pw]) && not mismatch in
       (* property predicate: the observed threshold is the specified one (= the model's, which
          C25_exact_tail characterises) and, where evaluated, within 2^-50 of the real formula *)
       let prop = eq && acc <> "0" in
       let nz = z_of_hex nn in
       { prop_ok = prop; model_eq = eq; nontrivial = (match nz with Zpos _ -> pp <> "-" | _ -> false);
         finding = "-"; tags;
         detail = if prop then "" else Printf.sprintf "model=%s%s%s" m (if mismatch then " ORACLE-ARGS-MISMATCH" else "")
                                         (if acc = "0" then " INACCURATE" else "") }
     | _ -> { (ok ()) with model_eq = false; prop_ok = false; detail = "shape" })
  | ["mono"; c1; c2; c1'; c2'; nn] ->
    (match o with
     | [a1; a2; a3; a4; a5; b1; b2; b3; b4; b5] ->
       let (m1, mm1, _, ca, r1, acc1) = thr_model c1 c2 nn [a1; a2; a3; a4; a5] in
       let (m2, mm2, _, cb, r2, acc2) = thr_model c1' c2' nn [b1; b2; b3; b4; b5] in
       let eq = (m1 = String.concat " " [a1; a2; a3; a4]) && (m2 = String.concat " " [b1; b2; b3; b4]) && not mm1 && not mm2 in
       (* monotonicity on the implementation's own results *)
       let mono, tag = (match value_of_res r1, value_of_res r2 with
         | Some v1, Some v2 ->
           let le12 = f64_le ca cb and le21 = f64_le cb ca in
           ((not le12 || N.leb v1 v2) && (not le21 || N.leb v2 v1),
            if le12 && le21 then "mono-equal-c" else if v1 = v2 then "mono-equal-thr" else "mono-strict")
         | _ -> (true, "mono-vacuous")) in
       { prop_ok = mono && eq && acc1 <> "0" && acc2 <> "0"; model_eq = eq; nontrivial = (tag <> "mono-vacuous");
         finding = "-"; tags = tag;
         detail = if mono && eq then "" else Printf.sprintf "mono=%b model=%s | %s" mono m1 m2 }
     | _ -> { (ok ()) with model_eq = false; prop_ok = false; detail = "shape" })
  | ["prim"; _; _; _; _; up; lo] ->
    (match o with
     | [b; res] ->
       let thr = N.add (N.mul (n_of_hex up) two64) (n_of_hex lo) in
       let rb = bytes_of_hex res in
       let m = if check_primary_threshold rb thr then "1" else "0" in
       (* property predicate: below  <->  little-endian value of the 16 bytes < threshold *)
       let spec = if N.ltb (le_val rb) thr then "1" else "0" in
       { prop_ok = (b = spec); model_eq = (b = m); nontrivial = true; finding = "-";
         tags = "prim-" ^ b ^ (if le_val rb = thr then ",prim-equal" else ""); detail = if b = m && b = spec then "" else "model=" ^ m ^ " spec=" ^ spec }
     | _ -> { (ok ~tags:"prim-err" ()) with model_eq = false; prop_ok = false; detail = "prim err: " ^ obs })
  | ["sec"; rnd; slot; nn] ->
    let nz = z_of_hex nn in
    let m = (match secondary_slot_author (n_of_hex slot) nz (bytes_of_hex rnd) with
      | Ok i -> "ok:" ^ hex_of_n i | Panic -> "panic" | _ -> "err") in
    let tag = (match nz with Z0 -> "sec-n=0" | Zneg _ -> "sec-n<0" | Zpos _ ->
                if Z.ltb (z_of_hex "100000000") nz then "sec-n>2^32" else "sec") in
    { prop_ok = (m = obs); model_eq = (m = obs); nontrivial = (tag = "sec"); finding = "-"; tags = tag;
      detail = if m = obs then "" else "model=" ^ m }
  | _ -> fail "C25: bad input %s" inp

let () = run_driver check
