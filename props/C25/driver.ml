(* C25 driver: replays the Go trace on the extracted model.  math.Pow is supplied to the model
   as the oracle recorded by the harness (bit patterns of its two arguments and of its result);
   the model recomputes the arguments itself and the oracle answers only for exactly those. *)
open Model
open Vutil

let two64 = n_of_hex "10000000000000000"

(* the accuracy field of a thr observable: "-" (not evaluated) or a<k> (distance <= 2^-k) *)
let acc_k (acc : string) : int option =
  if acc = "-" then None
  else if String.length acc >= 2 && acc.[0] = 'a' then Some (int_of_string (String.sub acc 1 (String.length acc - 1)))
  else fail "C25: bad accuracy field %s" acc
let acc_ok acc = (match acc_k acc with None -> true | Some k -> k >= 50)
let acc_tag acc = (match acc_k acc with
  | None -> []
  | Some k -> ["acc-checked"; if k >= 80 then "acc-exact" else if k >= 54 then "acc-2^-54" else Printf.sprintf "acc-2^-%d" k])
let str_thr (o : n outcome) = match o with
  | Ok v -> let (up, lo) = split128 v in
            "ok:" ^ hex_of_n up ^ "," ^ hex_of_n lo
  | Err c -> let c = int_of_nat c in
             if c = int_of_nat err_zero then "err:zero" else if c = int_of_nat err_gt_one then "err:gt1"
             else if c = int_of_nat err_16_bytes then "err:16" else "err:other"
  | Panic -> "panic"
  | OutOfFuel -> "fuel"

(* one thr observable: returns (model string, mismatch flag, tags, c as float, observed result) *)
let thr_model c1 c2 nn obs5 =
  match obs5 with
  | [res; pp; th; pw; acc] ->
    let c1z = z_of_hex c1 and c2z = z_of_hex c2 and nz = z_of_hex nn in
    let mismatch = ref false in
    let used = ref false in
    let pow x y =
      used := true;
      if pp <> "-" && f64_bits x = n_of_hex pp && f64_bits y = n_of_hex th then f64_of_bits (n_of_hex pw)
      else (mismatch := true; f64_nan) in
    let m = str_thr (calculate_threshold pow c1z c2z nz) in
    let c = ratio_of c1z c2z in
    let ncls = (match nz with Z0 -> "n=0" | Zneg _ -> "n<0" | Zpos XH -> "n=1" | Zpos _ ->
                 if int_of_z (if Z.ltb nz (z_of_int 1000000000) then nz else z_of_int 1000000000) > 1000 then "n>1000" else "n-small") in
    let rcls = (match String.index_opt m ':' with
                | Some i when String.sub m 0 i = "ok" ->
                  if m = "ok:ffffffffffffffff,ffffffffffffffff" then "thr-max" else if m = "ok:0,0" then "thr-zero" else "thr-ok"
                | _ -> "thr-" ^ m) in
    let tags = String.concat "," ([rcls; ncls] @ acc_tag acc @ (if !used then ["pow-used"] else [])) in
    (m ^ " " ^ String.concat " " [pp; th; pw], !mismatch, tags, c, res, acc)
  | _ -> fail "C25: bad thr observable"

let value_of_res res =
  if String.length res > 3 && String.sub res 0 3 = "ok:" then
    (match String.split_on_char ',' (String.sub res 3 (String.length res - 3)) with
     | [u; l] -> Some (N.add (N.mul (n_of_hex u) two64) (n_of_hex l))
     | _ -> None)
  else None

let check inp obs =
  let f = split_ws inp and o = split_ws obs in
  match f with
  | ["thr"; c1; c2; nn] ->
    (match o with
     | [res; pp; th; pw; acc] ->
       let (m, mismatch, tags, _, _, _) = thr_model c1 c2 nn o in
       let eq = (m = String.concat " " [res; pp; th; pw]) && not mismatch in
       (* property predicate: the observed threshold is the specified one (= the model's, which
          C25_exact_tail characterises) and, where evaluated, within 2^-50 of the real formula *)
       let prop = eq && acc_ok acc in
       let nz = z_of_hex nn in
       { prop_ok = prop; model_eq = eq; nontrivial = (match nz with Zpos _ -> pp <> "-" | _ -> false);
         finding = "-"; tags;
         detail = if prop then "" else Printf.sprintf "model=%s%s%s" m (if mismatch then " ORACLE-ARGS-MISMATCH" else "")
                                         (if not (acc_ok acc) then " INACCURATE" else "") }
     | _ -> { (ok ()) with model_eq = false; prop_ok = false; detail = "shape" })
  | ["mono"; c1; c2; c1'; c2'; nn] ->
    (match o with
     | [a1; a2; a3; a4; a5; b1; b2; b3; b4; b5] ->
       let (m1, mm1, _, ca, r1, acc1) = thr_model c1 c2 nn [a1; a2; a3; a4; a5] in
       let (m2, mm2, _, cb, r2, acc2) = thr_model c1' c2' nn [b1; b2; b3; b4; b5] in
       let eq = (m1 = String.concat " " [a1; a2; a3; a4]) && (m2 = String.concat " " [b1; b2; b3; b4]) && not mm1 && not mm2 in
       (* monotonicity on the implementation's own results *)
       let mono, tag = (match value_of_res r1, value_of_res r2 with
         | Some v1, Some v2 ->
           let le12 = f64_le ca cb and le21 = f64_le cb ca in
           ((not le12 || N.leb v1 v2) && (not le21 || N.leb v2 v1),
            if le12 && le21 then "mono-equal-c" else if v1 = v2 then "mono-equal-thr" else "mono-strict")
         | _ -> (true, "mono-vacuous")) in
       { prop_ok = mono && eq && acc_ok acc1 && acc_ok acc2; model_eq = eq; nontrivial = (tag <> "mono-vacuous");
         finding = "-"; tags = tag;
         detail = if mono && eq then "" else Printf.sprintf "mono=%b model=%s | %s" mono m1 m2 }
     | _ -> { (ok ()) with model_eq = false; prop_ok = false; detail = "shape" })
  | ["prim"; _; _; _; _; up; lo] ->
    (match o with
     | [b; res] ->
       let thr = N.add (N.mul (n_of_hex up) two64) (n_of_hex lo) in
       let rb = bytes_of_hex res in
       let m = if check_primary_threshold rb thr then "1" else "0" in
       (* property predicate: below  <->  little-endian value of the 16 bytes < threshold *)
       let spec = if N.ltb (le_val rb) thr then "1" else "0" in
       { prop_ok = (b = spec); model_eq = (b = m); nontrivial = true; finding = "-";
         tags = "prim-" ^ b ^ (if le_val rb = thr then ",prim-equal" else ""); detail = if b = m && b = spec then "" else "model=" ^ m ^ " spec=" ^ spec }
     | _ -> { (ok ~tags:"prim-err" ()) with model_eq = false; prop_ok = false; detail = "prim err: " ^ obs })
  | ["sec"; rnd; slot; nn] ->
    let nz = z_of_hex nn in
    let m = (match secondary_slot_author (n_of_hex slot) nz (bytes_of_hex rnd) with
      | Ok i -> "ok:" ^ hex_of_n i | Panic -> "panic" | _ -> "err") in
    let tag = (match nz with Z0 -> "sec-n=0" | Zneg _ -> "sec-n<0" | Zpos _ ->
                if Z.ltb (z_of_hex "100000000") nz then "sec-n>2^32" else "sec") in
    { prop_ok = (m = obs); model_eq = (m = obs); nontrivial = (tag = "sec"); finding = "-"; tags = tag;
      detail = if m = obs then "" else "model=" ^ m }
  | _ -> fail "C25: bad input %s" inp

(* ---- vm_compute cross-check of the extraction: thr / prim / sec cases recomputed inside Coq
   (Flocq's binary64 operations and the Gallina BLAKE2b evaluate under vm_compute); helpers
   ocn_is come from meta.json's vm_header *)
let coq_z (s : string) : string =
  if String.length s > 0 && s.[0] = '-' then "(- 0x" ^ String.sub s 1 (String.length s - 1) ^ ")%Z" else "(0x" ^ s ^ ")%Z"

let coq inp obs =
  match split_ws inp, split_ws obs with
  | ["thr"; c1; c2; nn], [res; pp; th; pw; _acc] ->
    let pow = if pp = "-" then "(fun _ _ => f64_nan)" else
        Printf.sprintf "(fun x y => if andb (N.eqb (f64_bits x) %s) (N.eqb (f64_bits y) %s) then f64_of_bits %s else f64_nan)"
          (coq_n (n_of_hex pp)) (coq_n (n_of_hex th)) (coq_n (n_of_hex pw)) in
    let expect = (match res with
      | "err:zero" -> Some "1 0%N" | "err:gt1" -> Some "2 0%N" | "err:16" -> Some "3 0%N" | "panic" -> Some "99 0%N"
      | _ -> (match value_of_res res with Some v -> Some ("0 " ^ coq_n v) | None -> None)) in
    (match expect with
     | Some e -> Some (Printf.sprintf "ocn_is (calculate_threshold %s %s %s %s) %s" pow (coq_z c1) (coq_z c2) (coq_z nn) e)
     | None -> None)
  | ["prim"; _; _; _; _; up; lo], [b; res] when b = "0" || b = "1" ->
    let thr = N.add (N.mul (n_of_hex up) two64) (n_of_hex lo) in
    Some (Printf.sprintf "Bool.eqb (check_primary_threshold %s %s) %s" (coq_bytes (bytes_of_hex res)) (coq_n thr)
            (if b = "1" then "true" else "false"))
  | ["sec"; rnd; slot; nn], [r] ->
    let expect = (if r = "panic" then Some "99 0%N"
                  else if String.length r > 3 && String.sub r 0 3 = "ok:" then
                    Some ("0 " ^ coq_n (n_of_hex (String.sub r 3 (String.length r - 3))))
                  else None) in
    (match expect with
     | Some e -> Some (Printf.sprintf "ocn_is (secondary_slot_author %s %s %s) %s" (coq_n (n_of_hex slot)) (coq_z nn)
                         (coq_bytes (bytes_of_hex rnd)) e)
     | None -> None)
  | _ -> None

let () = run_driver ~coq check
