// C16 correspondence harness (injected into package lib/blocktree by `go test -overlay`).
//
// input (fields separated by one space, all numbers hex):
//   t <rootnum> <nblk> <blk_1> ... <blk_nblk> <fin> <order> ...
//   blk_i := <parent>.<number>.<kind>.<arrival>   as in the C15 harness: parent index (0 = root,
//            j < i), header.Number, kind of the first digest item (0 BABE primary, 1 secondary
//            plain, 2 secondary VRF), arrival in nanoseconds.  Hashes are the real Header.Hash().
//   fin   := f<i>   after all additions Prune(hash_i) and ask again (f0: no finalisation)
//   order := o<i1>.<i2>. ... a permutation of 1..nblk; a fresh BlockTree is built for every order
//            and the blocks are added in that order (AddBlock(header_i, arrival_i)).  An order may
//            contain one `z`: Prune(hash_fin) happens at that position, between the additions
//            (an interleaving with the finalisation in between), and not again at the end; the
//            first three observed fields are then taken at the end and the last two are `-`.
// observed:
//   H:<hash_0>,...,<hash_nblk> then one token per order:
//   B:<adds: number of AddBlock errors>;<BestBlockHash, three calls, as block indices '/'-separated>;
//     <leaves sorted>;<BestBlockHash after the finalisation, or ->;<leaves after, or ->
package blocktree

import (
	"fmt"
	"sort"
	"strings"
	"testing"
	"time"

	"github.com/ChainSafe/gossamer/dot/types"
	"github.com/ChainSafe/gossamer/lib/common"
	"github.com/ChainSafe/gossamer/lib/crypto/sr25519"

	vu "github.com/ChainSafe/gossamer/internal/verifutil"
)

type c16blk struct {
	parent  int
	number  uint64
	kind    int
	arrival int64
	header  *types.Header
}

func c16Digest(kind int, idx int) types.Digest {
	digest := types.NewDigest()
	var pre *types.PreRuntimeDigest
	var err error
	switch kind {
	case 0:
		pre, err = types.NewBabePrimaryPreDigest(uint32(idx), uint64(idx)+1,
			[sr25519.VRFOutputLength]byte{}, [sr25519.VRFProofLength]byte{}).ToPreRuntimeDigest()
	case 1:
		pre, err = types.NewBabeSecondaryPlainPreDigest(uint32(idx), uint64(idx)+1).ToPreRuntimeDigest()
	default:
		pre, err = types.NewBabeSecondaryVRFPreDigest(uint32(idx), uint64(idx)+1,
			[sr25519.VRFOutputLength]byte{}, [sr25519.VRFProofLength]byte{}).ToPreRuntimeDigest()
	}
	if err != nil {
		panic(err)
	}
	if e := digest.Add(*pre); e != nil {
		panic(e)
	}
	return digest
}

func c16Ids(ids map[common.Hash]int, hs []common.Hash) string {
	if len(hs) == 0 {
		return "-"
	}
	idx := make([]int, 0, len(hs))
	for _, h := range hs {
		if i, ok := ids[h]; ok {
			idx = append(idx, i)
		} else {
			idx = append(idx, 0xfff)
		}
	}
	sort.Ints(idx)
	out := make([]string, len(idx))
	for i, v := range idx {
		out[i] = vu.X(uint64(v))
	}
	return strings.Join(out, ",")
}

func c16Run(in string) string {
	f := strings.Fields(in)
	if len(f) < 4 || f[0] != "t" {
		panic("c16: bad input " + in)
	}
	rootnum := vu.UnX(f[1])
	n := int(vu.UnX(f[2]))
	ids := map[common.Hash]int{}
	root := &types.Header{ParentHash: common.Hash{0xaa}, Number: uint(rootnum), Digest: types.NewDigest()}
	blks := []c16blk{{header: root, number: rootnum}}
	ids[root.Hash()] = 0
	for i := 1; i <= n; i++ {
		p := strings.Split(f[2+i], ".")
		b := c16blk{parent: int(vu.UnX(p[0])), number: vu.UnX(p[1]), kind: int(vu.UnX(p[2])), arrival: vu.UnXI(p[3])}
		if b.parent < 0 || b.parent >= i {
			panic("c16: bad parent")
		}
		b.header = &types.Header{
			ParentHash:     blks[b.parent].header.Hash(),
			Number:         uint(b.number),
			ExtrinsicsRoot: common.Hash{byte(i), byte(i >> 8), 0x16},
			Digest:         c16Digest(b.kind, i),
		}
		blks = append(blks, b)
		ids[b.header.Hash()] = i
	}
	rest := f[3+n:]
	fin := int(vu.UnX(rest[0][1:]))
	hs := make([]string, len(blks))
	for i := range blks {
		h := blks[i].header.Hash()
		hs[i] = vu.Hex(h[:])
	}
	out := []string{"H:" + strings.Join(hs, ",")}
	id := func(h common.Hash) string {
		if i, ok := ids[h]; ok {
			return vu.X(uint64(i))
		}
		return "?"
	}
	for _, o := range rest[1:] {
		bt := NewBlockTreeFromRoot(blks[0].header)
		errs := 0
		inter := false
		for _, s := range strings.Split(o[1:], ".") {
			if s == "z" {
				inter = true
				bt.Prune(blks[fin].header.Hash())
				continue
			}
			i := int(vu.UnX(s))
			if err := bt.AddBlock(blks[i].header, time.Unix(0, blks[i].arrival)); err != nil {
				errs++
			}
		}
		best := []string{id(bt.BestBlockHash()), id(bt.BestBlockHash()), id(bt.BestBlockHash())}
		tok := fmt.Sprintf("B:%s;%s;%s", vu.X(uint64(errs)), strings.Join(best, "/"), c16Ids(ids, bt.Leaves()))
		if inter {
			tok += ";-;-"
		} else if fin > 0 {
			bt.Prune(blks[fin].header.Hash())
			tok += ";" + id(bt.BestBlockHash()) + ";" + c16Ids(ids, bt.Leaves())
		} else {
			tok += ";-;-"
		}
		out = append(out, tok)
	}
	return strings.Join(out, " ")
}

// ---------------------------------------------------------------- generators

func c16Blocks(rootnum uint64, par []int, kind []int, arr []int64) string {
	n := len(par) - 1
	num := make([]uint64, n+1)
	num[0] = rootnum
	var sb strings.Builder
	fmt.Fprintf(&sb, "t %s %s", vu.X(rootnum), vu.X(uint64(n)))
	for i := 1; i <= n; i++ {
		num[i] = num[par[i]] + 1
		fmt.Fprintf(&sb, " %s.%s.%s.%s", vu.X(uint64(par[i])), vu.X(num[i]), vu.X(uint64(kind[i])), vu.XI(arr[i]))
	}
	return sb.String()
}

// a random parent-first order (random topological sort)
func c16RandomOrder(r *vu.RNG, par []int) []int {
	n := len(par) - 1
	added := make([]bool, n+1)
	added[0] = true
	var order []int
	for len(order) < n {
		var ready []int
		for i := 1; i <= n; i++ {
			if !added[i] && added[par[i]] {
				ready = append(ready, i)
			}
		}
		c := ready[r.Intn(len(ready))]
		added[c] = true
		order = append(order, c)
	}
	return order
}

// every parent-first order
func c16AllOrders(par []int, f func([]int)) {
	n := len(par) - 1
	added := make([]bool, n+1)
	added[0] = true
	order := make([]int, 0, n)
	var rec func()
	rec = func() {
		if len(order) == n {
			f(append([]int(nil), order...))
			return
		}
		for i := 1; i <= n; i++ {
			if !added[i] && added[par[i]] {
				added[i] = true
				order = append(order, i)
				rec()
				order = order[:len(order)-1]
				added[i] = false
			}
		}
	}
	rec()
}

func c16OrderTok(o []int) string {
	s := make([]string, len(o))
	for i, v := range o {
		s[i] = vu.X(uint64(v))
	}
	return "o" + strings.Join(s, ".")
}

func c16ParentVectors(n int, f func(par []int)) {
	par := make([]int, n+1)
	var rec func(i int)
	rec = func(i int) {
		if i > n {
			f(append([]int(nil), par...))
			return
		}
		for p := 0; p < i; p++ {
			par[i] = p
			rec(i + 1)
		}
	}
	rec(1)
}

func c16Random(r *vu.RNG, emit func(string)) {
	n := r.Range(2, 14)
	par := make([]int, n+1)
	mode := r.Intn(3)
	for i := 1; i <= n; i++ {
		switch mode {
		case 0:
			par[i] = r.Intn(i)
		case 1: // a few long forks from a common trunk
			if r.Chance(3, 4) {
				par[i] = i - 1
			} else {
				par[i] = r.Intn(i)
			}
		default: // wide
			par[i] = r.Intn(1 + i/3)
		}
	}
	kind := make([]int, n+1)
	arr := make([]int64, n+1)
	pk := r.Intn(4) // bias of primaries
	amode := r.Intn(3)
	for i := 1; i <= n; i++ {
		if r.Intn(4) <= pk {
			kind[i] = r.Range(1, 2)
		}
		switch amode {
		case 0: // everything ties
			arr[i] = 7
		case 1:
			arr[i] = int64(r.Intn(3))
		default:
			arr[i] = int64(i) + int64(r.Intn(2))
		}
	}
	fin := 0
	if r.Chance(1, 2) {
		fin = r.Range(1, n)
	}
	toks := []string{c16Blocks([]uint64{0, 0, 1, 9}[r.Intn(4)], par, kind, arr), "f" + vu.X(uint64(fin))}
	seen := map[string]bool{}
	for k := 0; k < 24; k++ {
		t := c16OrderTok(c16RandomOrder(r, par))
		if !seen[t] {
			seen[t] = true
			toks = append(toks, t)
		}
	}
	if fin > 0 {
		// interleavings with the finalisation in between: mostly after the finalised block has
		// been added (then every interleaving must agree), sometimes before (Prune of a block
		// that is not held yet does nothing)
		for k := 0; k < 6; k++ {
			o := c16RandomOrder(r, par)
			pos := 0
			for j, v := range o {
				if v == fin {
					pos = j + 1
				}
			}
			at := pos + r.Intn(len(o)-pos+1)
			if r.Chance(1, 8) {
				at = r.Intn(len(o) + 1)
			}
			parts := make([]string, 0, len(o)+1)
			for j, v := range o {
				if j == at {
					parts = append(parts, "z")
				}
				parts = append(parts, vu.X(uint64(v)))
			}
			if at == len(o) {
				parts = append(parts, "z")
			}
			toks = append(toks, "o"+strings.Join(parts, "."))
		}
	}
	emit(strings.Join(toks, " "))
}

func c16Exhaustive(r *vu.RNG, maxBlocks int, emit func(string)) {
	for n := 1; n <= maxBlocks; n++ {
		c16ParentVectors(n, func(par []int) {
			// all primary/secondary marks
			for marks := 0; marks < 1<<uint(n); marks++ {
				kind := make([]int, n+1)
				arr := make([]int64, n+1)
				for i := 1; i <= n; i++ {
					if marks&(1<<uint(i-1)) == 0 {
						kind[i] = 1 + r.Intn(2)
					}
					arr[i] = int64(r.Intn(2))
				}
				toks := []string{c16Blocks(uint64(r.Intn(2)), par, kind, arr), "f" + vu.X(uint64(r.Intn(n+1)))}
				c16AllOrders(par, func(o []int) { toks = append(toks, c16OrderTok(o)) })
				emit(strings.Join(toks, " "))
			}
		})
	}
}

func c16Gen(r *vu.RNG, n int, emit func(string)) {
	// ties on everything but the hash; a longer secondary fork against a shorter primary one
	emit("t 0 2 0.1.0.0 0.1.0.0 f0 o1.2 o2.1")
	emit("t 0 4 0.1.0.5 0.1.0.3 0.1.1.0 3.2.2.0 f0 o1.2.3.4 o3.4.2.1 o3.1.4.2")
	emit("t 1 5 0.2.0.0 1.3.1.0 0.2.1.0 3.3.0.0 3.3.0.0 f3 o1.2.3.4.5 o3.5.4.1.2")
	// equal primary counts, different heights, the lower leaf arrived first: height decides
	emit("t 0 3 0.1.0.0 0.1.1.5 2.2.0.9 f0 o1.2.3 o2.3.1 o2.1.3")
	emit("t 0 5 0.1.0.0 0.1.1.5 2.2.0.9 0.1.2.1 4.2.0.2 f0 o1.2.3.4.5 o4.5.2.3.1 o2.4.3.5.1")
	// the finalisation of block 1 in between: before its children 3, 4 are added / after / last;
	// block 2 is abandoned, or refused when it comes after the finalisation
	emit("t 0 4 0.1.0.5 0.1.0.3 1.2.1.0 1.2.0.9 f1 o1.2.3.4 o1.2.z.3.4 o2.1.4.z.3 o2.1.4.3.z o1.z.2.3.4 o1.3.z.4.2")
	max := 4
	if vu.Thorough() {
		max = 5
	}
	c16Exhaustive(r.Fork(), max, emit)
	rr := r.Fork()
	for i := 0; i < n; i++ {
		c16Random(rr, emit)
	}
}

func TestVerifC16(t *testing.T) {
	vu.Run(t, "C16", 1500, c16Gen, c16Run)
}
