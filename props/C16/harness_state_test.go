// C16 correspondence harness, second observation point: BlockState.BestBlockHash
// (injected into package dot/state by `go test -overlay`).  A real BlockState on an in-memory
// database is built from a genesis header for every insertion order.
//
// input (fields separated by one space, all numbers hex):
//   bs <nblk> <blk_1> ... <blk_nblk> <fin> <order> ...
//   blk_i, fin, order exactly as in props/C16/harness_test.go (the root is the genesis block,
//   number 0): blk_i := <parent>.<number>.<kind>.<arrival>, fin := f<i> (after all additions
//   SetFinalisedHash(hash_i, 1, 0) and ask again; f0: no finalisation), order := o<i1>.<i2>...
//   An order may contain one `z`: SetFinalisedHash(hash_fin, 1, 0) happens at that position,
//   between the additions, and not again at the end (a refused request, e.g. for a block that is
//   not added yet, changes nothing); the last two observed fields are then `-`.
// observed (same shape as the lib/blocktree harness, so that one driver checks both):
//   H:<hash_0>,...,<hash_nblk> then one token per order:
//   B:<number of AddBlockWithArrivalTime errors>;<BlockState.BestBlockHash, three calls>;
//     <leaves (BlockState.Leaves) sorted>;<BestBlockHash after the finalisation, or ->;
//     <leaves after, or ->
//   BestBlockHeader().Hash() and BestBlockNumber() must name the same block: when they do not the
//   best-hash field is suffixed with `!hdr`.
package state

import (
	"encoding/json"
	"fmt"
	"sort"
	"strings"
	"testing"
	"time"

	"github.com/ChainSafe/gossamer/dot/types"
	"github.com/ChainSafe/gossamer/internal/database"
	"github.com/ChainSafe/gossamer/lib/common"
	"github.com/ChainSafe/gossamer/lib/crypto/sr25519"

	vu "github.com/ChainSafe/gossamer/internal/verifutil"
)

type c16sTelemetry struct{}

func (c16sTelemetry) SendMessage(json.Marshaler) {}

type c16sBlk struct {
	parent  int
	number  uint64
	kind    int
	arrival int64
	header  *types.Header
}

func c16sDigest(kind int, idx int) types.Digest {
	digest := types.NewDigest()
	var pre *types.PreRuntimeDigest
	var err error
	switch kind {
	case 0:
		pre, err = types.NewBabePrimaryPreDigest(uint32(idx), uint64(idx)+1,
			[sr25519.VRFOutputLength]byte{}, [sr25519.VRFProofLength]byte{}).ToPreRuntimeDigest()
	case 1:
		pre, err = types.NewBabeSecondaryPlainPreDigest(uint32(idx), uint64(idx)+1).ToPreRuntimeDigest()
	default:
		pre, err = types.NewBabeSecondaryVRFPreDigest(uint32(idx), uint64(idx)+1,
			[sr25519.VRFOutputLength]byte{}, [sr25519.VRFProofLength]byte{}).ToPreRuntimeDigest()
	}
	if err != nil {
		panic(err)
	}
	if e := digest.Add(*pre); e != nil {
		panic(e)
	}
	return digest
}

func c16sIds(ids map[common.Hash]int, hs []common.Hash) string {
	if len(hs) == 0 {
		return "-"
	}
	idx := make([]int, 0, len(hs))
	for _, h := range hs {
		if i, ok := ids[h]; ok {
			idx = append(idx, i)
		} else {
			idx = append(idx, 0xfff)
		}
	}
	sort.Ints(idx)
	out := make([]string, len(idx))
	for i, v := range idx {
		out[i] = vu.X(uint64(v))
	}
	return strings.Join(out, ",")
}

func c16sRun(in string) string {
	f := strings.Fields(in)
	if len(f) < 4 || f[0] != "bs" {
		panic("c16s: bad input " + in)
	}
	n := int(vu.UnX(f[1]))
	ids := map[common.Hash]int{}
	genesis := &types.Header{Number: 0, StateRoot: common.Hash{0x16}, Digest: types.NewDigest()}
	blks := []c16sBlk{{header: genesis}}
	ids[genesis.Hash()] = 0
	for i := 1; i <= n; i++ {
		p := strings.Split(f[1+i], ".")
		b := c16sBlk{parent: int(vu.UnX(p[0])), number: vu.UnX(p[1]), kind: int(vu.UnX(p[2])), arrival: vu.UnXI(p[3])}
		if b.parent < 0 || b.parent >= i {
			panic("c16s: bad parent")
		}
		b.header = &types.Header{
			ParentHash:     blks[b.parent].header.Hash(),
			Number:         uint(b.number),
			StateRoot:      common.Hash{0x16, byte(i)},
			ExtrinsicsRoot: common.Hash{byte(i), byte(i >> 8), 0x16},
			Digest:         c16sDigest(b.kind, i),
		}
		blks = append(blks, b)
		ids[b.header.Hash()] = i
	}
	rest := f[2+n:]
	fin := int(vu.UnX(rest[0][1:]))
	hs := make([]string, len(blks))
	for i := range blks {
		h := blks[i].header.Hash()
		hs[i] = vu.Hex(h[:])
	}
	out := []string{"H:" + strings.Join(hs, ",")}
	id := func(h common.Hash) string {
		if i, ok := ids[h]; ok {
			return vu.X(uint64(i))
		}
		return "?"
	}
	for _, o := range rest[1:] {
		db, err := database.LoadDatabase("", true)
		if err != nil {
			panic(err)
		}
		bs, err := NewBlockStateFromGenesis(db, NewTries(), genesis, c16sTelemetry{})
		if err != nil {
			panic(err)
		}
		best := func() string {
			h := bs.BestBlockHash()
			s := id(h)
			hd, err := bs.BestBlockHeader()
			if err != nil || hd.Hash() != h {
				s += "!hdr"
			} else if num, err := bs.BestBlockNumber(); err != nil || num != hd.Number {
				s += "!hdr"
			}
			return s
		}
		errs := 0
		inter := false
		for _, s := range strings.Split(o[1:], ".") {
			if s == "z" {
				inter = true
				_ = bs.SetFinalisedHash(blks[fin].header.Hash(), 1, 0)
				continue
			}
			i := int(vu.UnX(s))
			blk := &types.Block{Header: *blks[i].header, Body: types.Body{}}
			if err := bs.AddBlockWithArrivalTime(blk, time.Unix(0, blks[i].arrival)); err != nil {
				errs++
			}
		}
		b3 := []string{best(), best(), best()}
		tok := fmt.Sprintf("B:%s;%s;%s", vu.X(uint64(errs)), strings.Join(b3, "/"), c16sIds(ids, bs.Leaves()))
		if inter {
			tok += ";-;-"
		} else if fin > 0 {
			if err := bs.SetFinalisedHash(blks[fin].header.Hash(), 1, 0); err != nil {
				tok += ";err;-"
			} else {
				tok += ";" + best() + ";" + c16sIds(ids, bs.Leaves())
			}
		} else {
			tok += ";-;-"
		}
		out = append(out, tok)
		db.Close()
	}
	return strings.Join(out, " ")
}

// ---------------------------------------------------------------- generators

func c16sBlocks(par []int, kind []int, arr []int64) string {
	n := len(par) - 1
	num := make([]uint64, n+1)
	var sb strings.Builder
	fmt.Fprintf(&sb, "bs %s", vu.X(uint64(n)))
	for i := 1; i <= n; i++ {
		num[i] = num[par[i]] + 1
		fmt.Fprintf(&sb, " %s.%s.%s.%s", vu.X(uint64(par[i])), vu.X(num[i]), vu.X(uint64(kind[i])), vu.XI(arr[i]))
	}
	return sb.String()
}

// a random parent-first order: repeatedly pick a block whose parent is already placed
func c16sRandomOrder(r *vu.RNG, par []int) []int {
	n := len(par) - 1
	placed := make([]bool, n+1)
	placed[0] = true
	var order []int
	for len(order) < n {
		var ready []int
		for i := 1; i <= n; i++ {
			if !placed[i] && placed[par[i]] {
				ready = append(ready, i)
			}
		}
		i := ready[r.Intn(len(ready))]
		placed[i] = true
		order = append(order, i)
	}
	return order
}

func c16sAllOrders(par []int, f func([]int)) {
	n := len(par) - 1
	placed := make([]bool, n+1)
	placed[0] = true
	order := make([]int, 0, n)
	var rec func()
	rec = func() {
		if len(order) == n {
			f(append([]int(nil), order...))
			return
		}
		for i := 1; i <= n; i++ {
			if !placed[i] && placed[par[i]] {
				placed[i] = true
				order = append(order, i)
				rec()
				order = order[:len(order)-1]
				placed[i] = false
			}
		}
	}
	rec()
}

func c16sOrderTok(o []int) string {
	s := make([]string, len(o))
	for i, v := range o {
		s[i] = vu.X(uint64(v))
	}
	return "o" + strings.Join(s, ".")
}

func c16sParentVectors(n int, f func(par []int)) {
	par := make([]int, n+1)
	var rec func(i int)
	rec = func(i int) {
		if i > n {
			f(append([]int(nil), par...))
			return
		}
		for p := 0; p < i; p++ {
			par[i] = p
			rec(i + 1)
		}
	}
	rec(1)
}

func c16sRandom(r *vu.RNG, emit func(string)) {
	n := r.Range(2, 10)
	par := make([]int, n+1)
	mode := r.Intn(3)
	for i := 1; i <= n; i++ {
		switch mode {
		case 0:
			par[i] = r.Intn(i)
		case 1:
			if r.Chance(3, 4) {
				par[i] = i - 1
			} else {
				par[i] = r.Intn(i)
			}
		default:
			par[i] = r.Intn(1 + i/3)
		}
	}
	kind := make([]int, n+1)
	arr := make([]int64, n+1)
	pk := r.Intn(4)
	amode := r.Intn(3)
	for i := 1; i <= n; i++ {
		if r.Intn(4) <= pk {
			kind[i] = r.Range(1, 2)
		}
		switch amode {
		case 0:
			arr[i] = 7
		case 1:
			arr[i] = int64(r.Intn(3))
		default:
			arr[i] = int64(i) + int64(r.Intn(2))
		}
	}
	fin := 0
	if r.Chance(1, 2) {
		fin = r.Range(1, n)
	}
	toks := []string{c16sBlocks(par, kind, arr), "f" + vu.X(uint64(fin))}
	seen := map[string]bool{}
	for k := 0; k < 4; k++ {
		t := c16sOrderTok(c16sRandomOrder(r, par))
		if !seen[t] {
			seen[t] = true
			toks = append(toks, t)
		}
	}
	if fin > 0 {
		// the finalisation in between: mostly after the finalised block has been added
		for k := 0; k < 3; k++ {
			o := c16sRandomOrder(r, par)
			pos := 0
			for j, v := range o {
				if v == fin {
					pos = j + 1
				}
			}
			at := pos + r.Intn(len(o)-pos+1)
			if r.Chance(1, 8) {
				at = r.Intn(len(o) + 1)
			}
			parts := make([]string, 0, len(o)+1)
			for j, v := range o {
				if j == at {
					parts = append(parts, "z")
				}
				parts = append(parts, vu.X(uint64(v)))
			}
			if at == len(o) {
				parts = append(parts, "z")
			}
			toks = append(toks, "o"+strings.Join(parts, "."))
		}
	}
	emit(strings.Join(toks, " "))
}

func c16sGen(r *vu.RNG, n int, emit func(string)) {
	// ties on everything but the hash; a longer secondary fork against a shorter primary one;
	// equal primaries and different heights with the lower leaf arriving first
	emit("bs 2 0.1.0.0 0.1.0.0 f0 o1.2 o2.1")
	emit("bs 4 0.1.0.5 0.1.0.3 0.1.1.0 3.2.2.0 f0 o1.2.3.4 o3.4.2.1 o3.1.4.2")
	emit("bs 3 0.1.0.0 0.1.1.5 2.2.0.9 f0 o1.2.3 o2.3.1 o2.1.3")
	// SetFinalisedHash(block 1) in between: before its children 3, 4 are added / after / last;
	// block 2 is abandoned, or refused when it comes after the finalisation
	emit("bs 4 0.1.0.5 0.1.0.3 1.2.1.0 1.2.0.9 f1 o1.2.3.4 o1.2.z.3.4 o2.1.4.z.3 o2.1.4.3.z o1.z.2.3.4 o1.3.z.4.2 oz.1.2.3.4")
	max := 3
	if vu.Thorough() {
		max = 4
	}
	rr := r.Fork()
	for nb := 1; nb <= max; nb++ {
		c16sParentVectors(nb, func(par []int) {
			for marks := 0; marks < 1<<uint(nb); marks++ {
				kind := make([]int, nb+1)
				arr := make([]int64, nb+1)
				for i := 1; i <= nb; i++ {
					if marks&(1<<uint(i-1)) == 0 {
						kind[i] = 1 + rr.Intn(2)
					}
					arr[i] = int64(rr.Intn(2))
				}
				toks := []string{c16sBlocks(par, kind, arr), "f" + vu.X(uint64(rr.Intn(nb+1)))}
				c16sAllOrders(par, func(o []int) { toks = append(toks, c16sOrderTok(o)) })
				emit(strings.Join(toks, " "))
			}
		})
	}
	r2 := r.Fork()
	for i := 0; i < n; i++ {
		c16sRandom(r2, emit)
	}
}

func TestVerifC16State(t *testing.T) {
	vu.Run(t, "C16", 200, c16sGen, c16sRun)
}
