(* C16 driver: replays the Go trace of lib/blocktree fork choice on the extracted model
   (model_eq) and checks the implementation's answers against the specification's best block
   (s_best_hash: the argmax of the childless blocks for the order of C16/Properties.v), the same
   for every insertion order (prop_ok).  Grammar: see props/C16/harness_test.go. *)
open Model
open Vutil

let split c s = String.split_on_char c s
let hexi s = int_of_string ("0x" ^ s)
let xs i = Printf.sprintf "%x" i

let digest_of_kind = function 0 -> DPrimary | 1 -> DSecondaryPlain | _ -> DSecondaryVRF

type blkdef = { parent : int; number : n; kind : int; arrival : z }

let check inp obs =
  let f = split_ws inp in
  (* "t": lib/blocktree harness; "bs": dot/state harness (BlockState.BestBlockHash, the root is
     the genesis block) -- same observables, same model *)
  let via_state, rootnum, nblk, rest = match f with
    | "t" :: rn :: nb :: rest -> false, n_of_hex rn, hexi nb, rest
    | "bs" :: nb :: rest -> true, N0, hexi nb, rest
    | _ -> fail "C16: bad input %s" inp in
  let rec take k l acc = if k = 0 then (List.rev acc, l) else
      match l with x :: r -> take (k - 1) r (x :: acc) | [] -> fail "C16: short input" in
  let blks_s, rest = take nblk rest [] in
  let blks = Array.of_list ({ parent = -1; number = rootnum; kind = 0; arrival = Z0 } ::
    List.map (fun s -> match split '.' s with
      | [p; nu; k; a] -> { parent = hexi p; number = n_of_hex nu; kind = hexi k; arrival = z_of_hex a }
      | _ -> fail "C16: bad block %s" s) blks_s) in
  let fin, orders = match rest with
    | ft :: os -> hexi (String.sub ft 1 (String.length ft - 1)),
                  List.map (fun o -> List.map (fun x -> if x = "z" then -1 else hexi x)
                                       (split '.' (String.sub o 1 (String.length o - 1)))) os
    | [] -> fail "C16: no orders" in
  let otoks = split_ws obs in
  if otoks = ["panic"] || otoks = ["hang"] then
    { prop_ok = false; model_eq = false; nontrivial = true; finding = "-"; tags = "whole-case-" ^ obs;
      detail = "the harness case ended in " ^ obs }
  else
  let htab, otoks = match otoks with
    | h :: r when String.length h > 2 && String.sub h 0 2 = "H:" ->
      Array.of_list (List.map n_of_hex (split ',' (String.sub h 2 (String.length h - 2)))), r
    | _ -> fail "C16: observed lacks the hash table: %s" obs in
  let hash i = htab.(i) in
  let idx_of h = let r = ref (-1) in Array.iteri (fun i x -> if x = h then r := i) htab; !r in
  let id_of h = let i = idx_of h in if i < 0 then "?" else xs i in
  let ids l = if l = [] then "-" else
      String.concat "," (List.map xs (List.sort compare (List.map idx_of l))) in
  let header i =
    let b = blks.(i) in
    { h_hash = hash i; h_parent = hash b.parent; h_number = b.number; h_digest = digest_of_kind b.kind } in
  let str_best = function Ok h -> id_of h | Err _ -> "err" | Panic -> "panic" | OutOfFuel -> "fuel" in
  (* model, one order *)
  let model_tok order =
    let t = ref (new_tree (hash 0) rootnum Z0) in
    let errs = ref 0 in
    let inter = List.mem (-1) order in
    List.iter (fun i ->
        if i < 0 then t := fst (prune !t (hash fin)) else
        match add_block !t (header i) blks.(i).arrival with
        | Ok t' -> t := t' | _ -> incr errs) order;
    let b = str_best (best_block_hash !t) in
    (* the reversed iteration orders must give the same answer *)
    let b' = str_best (best_block_hash_ord (fun l -> List.rev l) (fun l -> List.rev l) !t) in
    let lv = ids (get_leaves_of !t) in
    let after =
      if inter then "-;-"
      else if fin > 0 then begin
        let (t', _) = prune !t (hash fin) in
        str_best (best_block_hash t') ^ ";" ^ ids (get_leaves_of t')
      end else "-;-" in
    Printf.sprintf "B:%x;%s/%s/%s;%s;%s" !errs b b' b lv after in
  (* specification: block set from the first order (any order gives the same set) *)
  let spec_of order =
    let s = ref { s_root = hash 0; s_rootnum = rootnum; s_blocks = [] } in
    let errs = ref 0 in
    let fin_held = ref true in
    List.iter (fun i ->
        if i < 0 then begin
          if not (s_known !s (hash fin)) then fin_held := false;
          s := fst (s_fin !s (hash fin))
        end else
        match s_add !s (header i) blks.(i).arrival with
        | Ok s' -> s := s' | _ -> incr errs) order;
    (!s, !errs, !fin_held) in
  let opt_id = function Some h -> id_of h | None -> "none" in
  let first = (match orders with o :: _ -> o | [] -> fail "C16: no orders") in
  let (s0, e0, _) = spec_of first in
  let want_best = opt_id (s_best_hash s0) in
  let want_leaves = ids (s_leaves s0) in
  let want_after, want_leaves_after =
    if fin > 0 then (let (s1, _) = s_fin s0 (hash fin) in (opt_id (s_best_hash s1), ids (s_leaves s1)))
    else ("-", "-") in
  let bad = ref [] in
  let itags = ref [] in
  let itag x = if not (List.mem x !itags) then itags := x :: !itags in
  let note k w = bad := Printf.sprintf "order#%d:%s" k w :: !bad in
  if e0 <> 0 then note 0 "spec-rejects-a-block";
  if List.length otoks <> List.length orders then note 0 "token-count"
  else List.iteri (fun k tok ->
      if String.length tok < 2 || String.sub tok 0 2 <> "B:" then note k ("shape " ^ tok) else
      match split ';' (String.sub tok 2 (String.length tok - 2)) with
      | [errs; best3; lv; ba; la] when List.mem (-1) (List.nth orders k) ->
        (* an interleaving with the finalisation in between: its own specification run *)
        let (si, ei, held) = spec_of (List.nth orders k) in
        let wb = opt_id (s_best_hash si) in
        if errs <> xs ei then note k (Printf.sprintf "AddBlock errors=%s spec=%x" errs ei);
        List.iter (fun b -> if b <> wb then
                      note k (Printf.sprintf "interleaved finalisation: BestBlockHash=%s, argmax of the leaves=%s" b wb))
          (split '/' best3);
        if lv <> ids (s_leaves si) then note k (Printf.sprintf "interleaved finalisation: Leaves=%s spec=%s" lv (ids (s_leaves si)));
        if ba <> "-" || la <> "-" then note k "shape";
        itag (if not held then "interleaved-fin-before-its-block" else if ei = 0 then "interleaved-fin-all-accepted"
              else "interleaved-fin-some-refused");
        (* C16_interleavings_with_finalisations: all additions accepted and the target held when
           finalised: the same best block as with the finalisation at the end *)
        if held && ei = 0 && e0 = 0 && wb <> want_after then
          note k (Printf.sprintf "interleavings disagree: %s with the finalisation in between, %s with it at the end" wb want_after)
      | [errs; best3; lv; ba; la] ->
        if errs <> "0" then note k ("AddBlock errors=" ^ errs);
        List.iter (fun b -> if b <> want_best then
                      note k (Printf.sprintf "BestBlockHash=%s, argmax of the leaves=%s" b want_best))
          (split '/' best3);
        if lv <> want_leaves then note k (Printf.sprintf "Leaves=%s spec=%s" lv want_leaves);
        if not (List.mem want_best (split ',' lv)) then note k "best-not-a-leaf";
        if ba <> want_after then
          note k (Printf.sprintf "after finalising %x: BestBlockHash=%s, argmax=%s" fin ba want_after);
        if la <> want_leaves_after then note k (Printf.sprintf "after finalising: Leaves=%s spec=%s" la want_leaves_after)
      | _ -> note k ("shape " ^ tok)) otoks;
  let mt = List.map model_tok orders in
  let model_eq = (mt = otoks) in
  (* coverage: how the winner was decided *)
  let infos = s_leaf_infos s0 in
  let tags = ref [] in
  let tag x = if not (List.mem x !tags) then tags := x :: !tags in
  (match s_best s0 with
   | Some m ->
     let others = List.filter (fun i -> i.l_hash <> m.l_hash) infos in
     if others = [] then tag "single-leaf"
     else begin
       let same_c = List.filter (fun i -> i.l_count = m.l_count) others in
       if same_c = [] then tag "decided-by-primaries"
       else begin
         let same_n = List.filter (fun i -> i.l_number = m.l_number) same_c in
         if same_n = [] then tag "decided-by-number"
         else begin
           let same_a = List.filter (fun i -> i.l_arrival = m.l_arrival) same_n in
           if same_a = [] then tag "decided-by-arrival" else tag "decided-by-hash"
         end
       end
     end;
     if List.exists (fun i -> Model.better i m = false && i.l_number <> m.l_number
                              && (match i.l_number, m.l_number with a, b -> int_of_n a > int_of_n b)) others
     then tag "longer-fork-loses"
   | None -> tag "root-only");
  tag (Printf.sprintf "orders-%s" (let c = List.length orders in if c = 1 then "1" else if c < 6 then "2-5" else "6+"));
  if fin > 0 then tag "with-finalisation";
  List.iter tag !itags;
  tag (if via_state then "via-BlockState" else "via-BlockTree");
  let prop_ok = (!bad = []) in
  let first_diff =
    if model_eq then "" else begin
      let rec go k a b = match a, b with
        | x :: a', y :: b' -> if x = y then go (k + 1) a' b' else Printf.sprintf "order#%d model=%s impl=%s" k x y
        | _ -> "length" in
      go 0 mt otoks
    end in
  { prop_ok; model_eq; nontrivial = (List.length infos >= 2); finding = "-";
    tags = String.concat "," (List.sort compare !tags);
    detail = (if prop_ok && model_eq then "" else
                String.concat " | " (List.rev !bad) ^ (if first_diff = "" then "" else " || " ^ first_diff)) }

(* vm_compute cross-check: each insertion order replayed inside Coq (run of
   coq/BlockTree/Model.v) must give the best block the implementation reported *)
let coq inp obs =
  try
    let f = split_ws inp in
    let rootnum, nblk, rest = match f with
      | "t" :: rn :: nb :: rest -> rn, hexi nb, rest
      | "bs" :: nb :: rest -> "0", hexi nb, rest
      | _ -> raise Exit in
    if nblk > 12 then raise Exit;
    let rec take k l acc = if k = 0 then (List.rev acc, l) else
        match l with x :: r -> take (k - 1) r (x :: acc) | [] -> raise Exit in
    let blks_s, rest = take nblk rest [] in
    let blks = Array.of_list (("0", "0", 0, "0") :: List.map (fun s -> match split '.' s with
        | [p; nu; k; a] -> (p, nu, hexi k, a) | _ -> raise Exit) blks_s) in
    let orders = match rest with _ :: os -> os | [] -> raise Exit in
    let htab, otoks = match split_ws obs with
      | h :: r when String.length h > 2 && String.sub h 0 2 = "H:" ->
        Array.of_list (split ',' (String.sub h 2 (String.length h - 2))), r
      | _ -> raise Exit in
    let hash_lit i = "(0x" ^ htab.(i) ^ ")%N" in
    let kind_s = function 0 -> "DPrimary" | 1 -> "DSecondaryPlain" | _ -> "DSecondaryVRF" in
    let terms = List.map2 (fun o tok ->
        let order = List.map hexi (split '.' (String.sub o 1 (String.length o - 1))) in
        let want = (match split ';' (String.sub tok 2 (String.length tok - 2)) with
            | _ :: best3 :: _ -> (match split '/' best3 with b :: _ -> hexi b | [] -> raise Exit)
            | _ -> raise Exit) in
        let adds = List.map (fun i ->
            let (p, nu, k, a) = blks.(i) in
            Printf.sprintf "OAdd (mkHeader %s %s (0x%s)%%N %s) (%d)%%Z" (hash_lit i) (hash_lit (hexi p)) nu (kind_s k)
              (int_of_string ("0x" ^ a))) order in
        Printf.sprintf "best_matches %s (0x%s)%%N [%s] %s" (hash_lit 0) rootnum (String.concat "; " adds) (hash_lit want))
        (List.filteri (fun i _ -> i < 4) orders) (List.filteri (fun i _ -> i < 4) otoks) in
    Some (String.concat " && " terms)
  with _ -> None

let () = run_driver ~coq check
