// C30 correspondence harness (injected into package dot/peerset by `go test -overlay`).
// The action handlers of listenActionAllocSlots are called synchronously on a PeerSet built with
// newPeerSet and a buffered result channel, which is drained after every operation.
//
// Time. updateTime reads time.Now(); the harness makes its two uses deterministic:
//   - before each operation latestTimeUpdate is set to now-(k+0.5)s, so the first updateTime of
//     the operation sees exactly k elapsed seconds (k is part of the input);
//   - lastConnected of every node is pinned before each operation to one of two marker instants:
//     c30Old (second-of-minute 0: `lastConnected+1h .Second() >= now.Second()` is false, the
//     peer is forgotten when its reputation decays to 0) or c30Fresh (second 59: never
//     forgotten); operations with k>0 start only while now.Second() is in [1,58]. The `ag`
//     operation marks a peer old; the code itself only ever stores time.Now() (= fresh).
//
// input (fields separated by one space, numbers hex):
//
//	ps <maxIn> <maxOut> <reservedOnly 0|1> <nPeers> <op> <op> ...
//	op := <k>:<code>:<arg>:<peers>   peers = letters a.. (possibly repeated) or - for none
//	  ar addReservedPeers   rr removeReservedPeers   sr setReservedPeer   ap addPeer
//	  rm removePeer   in incoming   al allocSlots (ticker)   ag mark peer old
//	  rp reportPeer, arg = reputation change (signed hex)
//	  dc disconnect, arg = 1 for RefusedDrop else 0
//
// input `cst`: observed = BannedThresholdValue disconnectReputationChange (signed hex); the driver
// compares them with Model.banned_threshold / disconnect_change (the first is
// `82 * (math.MinInt32 / 100)`, which the constant translator cannot read).
//
// observed: one token per executed operation (execution stops after a hang):
//
//	<err>|<msgs>|<numIn>,<numOut>|<peer>,<peer>,...      or   hang   or   panic
//	err  := ok | e:<class>      msgs := <C|D|A|R><letter>... or -
//	peer := -  (not in nodes)  |  <state 0..3><o|f><r|-><n|->:<reputation signed hex>
//	        state 0 notMember 1 ingoing 2 outgoing 3 notConnected; o = old lastConnected;
//	        r = in reservedNode; n = in noSlotNodes   (absent peers still show "-" + r/n flags)
package peerset

import (
	"errors"
	"fmt"
	"strings"
	"testing"
	"time"

	vu "github.com/ChainSafe/gossamer/internal/verifutil"
	"github.com/libp2p/go-libp2p/core/peer"
)

var (
	c30Old   = time.Date(2000, 1, 1, 0, 0, 0, 0, time.UTC)
	c30Fresh = time.Date(2000, 1, 1, 0, 0, 59, 0, time.UTC)
	c30Hangs = 0
)

const c30HangBudget = 6

func c30Peers(s string) []peer.ID {
	if s == "-" {
		return []peer.ID{}
	}
	out := make([]peer.ID, 0, len(s))
	for _, c := range s {
		out = append(out, peer.ID(string(c)))
	}
	return out
}

func c30ErrClass(err error) string {
	switch {
	case err == nil:
		return "ok"
	case errors.Is(err, ErrPeerDoesNotExist):
		return "e:noexist"
	case errors.Is(err, ErrPeerDisconnected):
		return "e:disconnected"
	case errors.Is(err, ErrOutgoingSlotsUnavailable):
		return "e:outslots"
	case errors.Is(err, ErrIncomingSlotsUnavailable):
		return "e:inslots"
	case errors.Is(err, ErrDisconnectReceivedForNonConnectedPeer):
		return "e:nonconnected"
	}
	return "e:other"
}

func c30Snapshot(ps *PeerSet, n int) string {
	st := ps.peerState
	parts := make([]string, 0, n)
	for i := 0; i < n; i++ {
		id := peer.ID(string(rune('a' + i)))
		r, ns := "-", "-"
		if _, ok := ps.reservedNode[id]; ok {
			r = "r"
		}
		if _, ok := st.sets[0].noSlotNodes[id]; ok {
			ns = "n"
		}
		nd, ok := st.nodes[id]
		if !ok {
			parts = append(parts, "-"+r+ns)
			continue
		}
		o := "f"
		if nd.lastConnected[0].Equal(c30Old) {
			o = "o"
		}
		parts = append(parts, fmt.Sprintf("%d%s%s%s:%s", int(nd.state[0]), o, r, ns, vu.XI(int64(nd.reputation))))
	}
	return fmt.Sprintf("%s,%s|%s", vu.X(uint64(st.sets[0].numIn)), vu.X(uint64(st.sets[0].numOut)), strings.Join(parts, ","))
}

func c30Exec(ps *PeerSet, code, arg string, peers []peer.ID) error {
	switch code {
	case "ar":
		return ps.addReservedPeers(0, peers...)
	case "rr":
		return ps.removeReservedPeers(0, peers...)
	case "sr":
		return ps.setReservedPeer(0, peers...)
	case "rp":
		return ps.reportPeer(newReputationChange(Reputation(int32(vu.UnXI(arg))), "verif"), peers...)
	case "ap":
		return ps.addPeer(0, peers)
	case "rm":
		return ps.removePeer(0, peers...)
	case "in":
		return ps.incoming(0, peers...)
	case "dc":
		reason := UnknownDrop
		if arg == "1" {
			reason = RefusedDrop
		}
		return ps.disconnect(0, reason, peers...)
	case "al":
		return ps.allocSlots(0)
	case "ag":
		for _, p := range peers {
			if nd, ok := ps.peerState.nodes[p]; ok {
				nd.lastConnected[0] = c30Old
			}
		}
		return nil
	}
	panic("bad op " + code)
}

// c30RunOnce executes one sequence; stalled reports that some operation took so long in wall-clock
// time (machine load) that updateTime may have seen an extra elapsed second.
func c30RunOnce(in string) (result string, stalled, hung bool) {
	if in == "cst" { // constants the translator cannot read (math.MinInt32 expression), compared with Model.v
		return vu.XI(int64(BannedThresholdValue)) + " " + vu.XI(int64(disconnectReputationChange)), false, false
	}
	f := strings.Split(in, " ")
	if len(f) < 5 || f[0] != "ps" {
		return "err:badinput", false, false
	}
	if c30Hangs >= c30HangBudget {
		return "hang-budget", false, false
	}
	n := int(vu.UnX(f[4]))
	cfg := NewConfigSet(uint32(vu.UnX(f[1])), uint32(vu.UnX(f[2])), f[3] == "1", time.Hour)
	ps, err := newPeerSet(cfg)
	if err != nil {
		return "err:new", false, false
	}
	ps.resultMsgCh = make(chan Message, 4096)
	out := make([]string, 0, len(f)-5)
	for _, tok := range f[5:] {
		a := strings.Split(tok, ":")
		if len(a) != 4 {
			return "err:badop", false, false
		}
		k := int64(vu.UnX(a[0]))
		// pin lastConnected to the markers
		for _, nd := range ps.peerState.nodes {
			if !nd.lastConnected[0].Equal(c30Old) {
				nd.lastConnected[0] = c30Fresh
			}
		}
		// keep clear of the minute and second boundaries when seconds have to elapse
		if k > 0 {
			for {
				now := time.Now()
				if now.Second() >= 1 && now.Second() <= 58 && now.Nanosecond() < 800_000_000 {
					break
				}
				time.Sleep(50 * time.Millisecond)
			}
		}
		now := time.Now()
		ps.created = now.Add(-1_000_000 * time.Second)
		ps.latestTimeUpdate = now.Add(-time.Duration(k)*time.Second - 500*time.Millisecond)

		type res struct {
			err      error
			panicked bool
		}
		ch := make(chan res, 1)
		go func() {
			defer func() {
				if p := recover(); p != nil {
					ch <- res{nil, true}
				}
			}()
			ch <- res{c30Exec(ps, a[1], a[2], c30Peers(a[3])), false}
		}()
		var r res
		select {
		case r = <-ch:
		case <-time.After(1500 * time.Millisecond):
			out = append(out, "hang")
			return strings.Join(out, " "), false, true
		}
		if r.panicked {
			out = append(out, "panic")
			return strings.Join(out, " "), false, false
		}
		if time.Since(now) > 250*time.Millisecond {
			stalled = true
		}
		var ms strings.Builder
	drain:
		for {
			select {
			case m := <-ps.resultMsgCh:
				ms.WriteByte("CDAR"[int(m.Status)])
				ms.WriteString(string(m.PeerID))
			default:
				break drain
			}
		}
		msgs := ms.String()
		if msgs == "" {
			msgs = "-"
		}
		out = append(out, c30ErrClass(r.err)+"|"+msgs+"|"+c30Snapshot(ps, n))
	}
	if len(out) == 0 {
		return "-", stalled, false
	}
	return strings.Join(out, " "), stalled, false
}

// c30Run repeats a sequence whose execution was stalled by the machine (the elapsed-seconds
// arithmetic of updateTime reads the wall clock), so that the result only depends on the input.
// A hang is reported only when the sequence hangs three times in a row: a deadlock does, a
// frozen machine does not.
func c30Run(in string) string {
	var out string
	hangs := 0
	for attempt := 0; attempt < 6; attempt++ {
		var stalled, hung bool
		out, stalled, hung = c30RunOnce(in)
		if hung {
			hangs++
			if hangs >= 3 {
				c30Hangs++
				return out
			}
			continue
		}
		if !stalled {
			break
		}
	}
	return out
}

// ---------------------------------------------------------------- generator

func c30PeerList(r *vu.RNG, n int) string {
	k := 1
	switch r.Intn(10) {
	case 0:
		k = 0
	case 1, 2:
		k = 2
	case 3:
		k = 3
	case 4:
		k = 1 + r.Intn(4)
	}
	if k == 0 {
		return "-"
	}
	b := make([]byte, k)
	for i := range b {
		b[i] = byte('a' + r.Intn(n))
	}
	return string(b)
}

func c30Delta(r *vu.RNG) int64 {
	switch r.Intn(12) {
	case 0:
		return -2147483648 // BadProtocolValue
	case 1:
		return 2147483647
	case 2:
		return -1760936552 // the ban threshold itself
	case 3:
		return -1760936553
	case 4:
		return -1760936551 + int64(r.Intn(600)) - 300
	case 5:
		return -(1 << 20)
	case 6:
		return 1 << 7
	case 7:
		return int64(r.Intn(200)) - 100
	case 8:
		return -900000000
	case 9:
		return 900000000
	case 10:
		return 0
	default:
		return int64(int32(r.U64()))
	}
}

func c30Ticks(r *vu.RNG) uint64 {
	switch r.Intn(12) {
	case 0:
		return 1
	case 1:
		return uint64(2 + r.Intn(4))
	case 2:
		return uint64(40 + r.Intn(200)) // long enough for small reputations to decay to 0
	case 3:
		if r.Chance(1, 30) { // about an hour: even a banned peer decays to 0 (and is forgotten when old and not connected)
			return uint64(2500 + r.Intn(3000))
		}
	}
	return 0
}

func c30Op(r *vu.RNG, n int) string {
	k := c30Ticks(r)
	c := r.Intn(100)
	switch {
	case c < 12:
		return fmt.Sprintf("%x:ar:0:%s", k, c30PeerList(r, n))
	case c < 20:
		return fmt.Sprintf("%x:rr:0:%s", k, c30PeerList(r, n))
	case c < 24:
		return fmt.Sprintf("%x:sr:0:%s", k, c30PeerList(r, n))
	case c < 42:
		return fmt.Sprintf("%x:rp:%s:%s", k, vu.XI(c30Delta(r)), c30PeerList(r, n))
	case c < 54:
		return fmt.Sprintf("%x:ap:0:%s", k, c30PeerList(r, n))
	case c < 61:
		return fmt.Sprintf("%x:rm:0:%s", k, c30PeerList(r, n))
	case c < 79:
		return fmt.Sprintf("%x:in:0:%s", k, c30PeerList(r, n))
	case c < 90:
		return fmt.Sprintf("%x:dc:%d:%s", k, r.Intn(5)/4, c30PeerList(r, n))
	case c < 95:
		return fmt.Sprintf("%x:al:0:-", k)
	default:
		return fmt.Sprintf("0:ag:0:%s", c30PeerList(r, n))
	}
}

func c30Gen(r *vu.RNG, n int, emit func(string)) {
	// fixed cases: a change reported for two peers; report for an unknown peer; un-reserving a
	// connected peer with full slots; ban and re-allocation
	emit("cst")
	emit("ps 2 2 0 2 0:ap:0:ab 0:rp:a:ab 0:rp:-a:ba")
	emit("ps 2 2 0 2 0:rp:10:a 0:rp:10:ab")
	emit("ps 1 1 0 3 0:ar:0:a 0:in:0:a 0:in:0:b 0:rr:0:a")
	emit("ps 1 1 0 3 0:ar:0:a 0:ap:0:b 0:rr:0:a 0:sr:0:-")
	emit("ps 1 1 0 3 0:ap:0:abc 0:rp:-80000000:a 0:in:0:a 1:al:0:- 0:ag:0:abc f0:al:0:-")
	emit("ps 0 1 1 3 0:ar:0:ab 0:in:0:abc 0:rr:0:a 0:ap:0:c")
	emit("ps 3 3 0 4 0:in:0:abcd 0:dc:0:ab 0:dc:1:c 0:dc:0:c 0:rm:0:abcd")
	emit("ps 1 1 0 2 0:rp:7fffffff:a 0:rp:7fffffff:a 0:rp:-80000000:a 0:rp:-80000000:a 0:rp:-80000000:a 3:al:0:-")
	for i := 0; i < n; i++ {
		np := 2 + r.Intn(3)
		maxIn, maxOut := r.Intn(4), r.Intn(4)
		ro := 0
		if r.Chance(1, 4) {
			ro = 1
		}
		l := 10 + r.Intn(21)
		ops := make([]string, l)
		for j := range ops {
			ops[j] = c30Op(r, np)
		}
		emit(fmt.Sprintf("ps %x %x %d %x %s", maxIn, maxOut, ro, np, strings.Join(ops, " ")))
	}
}

func TestVerifC30(t *testing.T) { vu.Run(t, "C30", 3000, c30Gen, c30Run) }
