// C30 third harness (thorough tier): exhaustive small scope. Every sequence of up to
// c30ExhLen operations over a fixed alphabet (every handler on the peers a, b and on the
// list "ab", reports above and below the ban threshold, a long decay, marking peers old) is run
// for every configuration maxIn, maxOut in {0,1}, reserved-only on and off.
// Input and observed grammar: see harness_test.go (keyword `ps`).
package peerset

import (
	"fmt"
	"strings"
	"testing"

	vu "github.com/ChainSafe/gossamer/internal/verifutil"
)

var c30ExhAlphabet = []string{
	"0:ar:0:a", "0:ar:0:b", "0:rr:0:a", "0:rr:0:ab", "0:sr:0:b", "0:sr:0:-",
	"0:ap:0:a", "0:ap:0:ab", "0:rm:0:a", "0:rm:0:b",
	"0:in:0:a", "0:in:0:b", "0:in:0:ba",
	"0:dc:0:a", "0:dc:1:b",
	"0:rp:-80000000:a", "0:rp:-68f5c269:ab", "0:rp:7fffffff:ab", "0:rp:-1:b",
	"0:al:0:-", "c8:al:0:-", "0:ag:0:ab",
}

const c30ExhLen = 3

func c30GenExhaustive(_ *vu.RNG, n int, emit func(string)) {
	count := 0
	// only maximal sequences carry information not already in their prefixes: emit length-3 ones
	for _, ro := range []int{0, 1} {
		for maxIn := 0; maxIn <= 1; maxIn++ {
			for maxOut := 0; maxOut <= 1; maxOut++ {
				cfg := fmt.Sprintf("ps %x %x %d 2", maxIn, maxOut, ro)
				var seqs func(prefix []string)
				seqs = func(prefix []string) {
					if count >= n {
						return
					}
					if len(prefix) == c30ExhLen {
						emit(cfg + " " + strings.Join(prefix, " "))
						count++
						return
					}
					for _, op := range c30ExhAlphabet {
						seqs(append(append([]string{}, prefix...), op))
					}
				}
				seqs(nil)
			}
		}
	}
}

func TestVerifC30Exhaustive(t *testing.T) {
	vu.Run(t, "C30", 100000, c30GenExhaustive, c30Run)
}
