// C30 second quick harness: the same operation sequences driven through the public Handler
// (dot/peerset/handler.go) and the real action loop PeerSet.listenActionAllocSlots — the
// dispatch from the queued `action` to the PeerSet method (which handler runs, with which peers,
// DisconnectPeer = UnknownDrop) is part of what is compared with the model here, and the
// sortedPeers action is observed as well.
//
// Synchronisation. Actions are processed in order by one goroutine; after every operation the
// harness sends a sortedPeers action, whose answer arrives on an unbuffered channel: when it is
// received, every earlier action has been handled completely. The harness touches the PeerSet
// (pinning the clock, draining messages, snapshot) only between that answer and the next send,
// while the action goroutine is idle, so there is no concurrent access. The periodic ticker is
// set to one hour.
//
// input:   hd <maxIn> <maxOut> <reservedOnly> <nPeers> <op> ...      (ops as for `ps`, see
//          harness_test.go; `dc` always has arg 0: the handler only knows UnknownDrop; `al` and
//          `ag` are performed directly on the idle PeerSet)
// observed per op:  ?|<msgs>|<numIn>,<numOut>|<peers>|<sorted>
//          the error of the action is only logged by the loop: `?`; <sorted> = the answer of the
//          sortedPeers action (letters, or -).
package peerset

import (
	"context"
	"fmt"
	"strings"
	"testing"
	"time"

	vu "github.com/ChainSafe/gossamer/internal/verifutil"
	"github.com/libp2p/go-libp2p/core/peer"
)

func c30RunHandlerOnce(in string) (result string, stalled, hung bool) {
	f := strings.Split(in, " ")
	if len(f) < 5 || f[0] != "hd" {
		return "err:badinput", false, false
	}
	if c30Hangs >= c30HangBudget {
		return "hang-budget", false, false
	}
	n := int(vu.UnX(f[4]))
	cfg := NewConfigSet(uint32(vu.UnX(f[1])), uint32(vu.UnX(f[2])), f[3] == "1", time.Hour)
	h, err := NewPeerSetHandler(cfg)
	if err != nil {
		return "err:new", false, false
	}
	h.Start(context.Background())
	defer h.Stop()
	ps := h.peerSet
	out := make([]string, 0, len(f)-5)
	for _, tok := range f[5:] {
		a := strings.Split(tok, ":")
		if len(a) != 4 {
			return "err:badop", false, false
		}
		k := int64(vu.UnX(a[0]))
		for _, nd := range ps.peerState.nodes {
			if !nd.lastConnected[0].Equal(c30Old) {
				nd.lastConnected[0] = c30Fresh
			}
		}
		if k > 0 {
			for {
				now := time.Now()
				if now.Second() >= 1 && now.Second() <= 58 && now.Nanosecond() < 800_000_000 {
					break
				}
				time.Sleep(50 * time.Millisecond)
			}
		}
		now := time.Now()
		ps.created = now.Add(-1_000_000 * time.Second)
		ps.latestTimeUpdate = now.Add(-time.Duration(k)*time.Second - 500*time.Millisecond)

		peers := c30Peers(a[3])
		switch a[1] {
		case "ar":
			h.AddReservedPeer(0, peers...)
		case "rr":
			h.RemoveReservedPeer(0, peers...)
		case "sr":
			h.SetReservedPeer(0, peers...)
		case "rp":
			h.ReportPeer(newReputationChange(Reputation(int32(vu.UnXI(a[2]))), "verif"), peers...)
		case "ap":
			h.AddPeer(0, peers...)
		case "rm":
			h.RemovePeer(0, peers...)
		case "in":
			h.Incoming(0, peers...)
		case "dc":
			h.DisconnectPeer(0, peers...)
		default: // al, ag: not actions of the handler; performed on the idle PeerSet
			if e := c30Exec(ps, a[1], a[2], peers); e != nil {
				return "err:direct", false, false
			}
		}
		// barrier: the answer of sortedPeers comes after every earlier action
		var sorted peer.IDSlice
		select {
		case sorted = <-h.SortedPeers(0):
		case <-time.After(1500 * time.Millisecond):
			out = append(out, "hang")
			return strings.Join(out, " "), false, true
		}
		if time.Since(now) > 250*time.Millisecond {
			stalled = true
		}
		var ms strings.Builder
	drain:
		for {
			select {
			case m := <-h.Messages():
				ms.WriteByte("CDAR"[int(m.Status)])
				ms.WriteString(string(m.PeerID))
			default:
				break drain
			}
		}
		msgs := ms.String()
		if msgs == "" {
			msgs = "-"
		}
		so := "-"
		if len(sorted) > 0 {
			var sb strings.Builder
			for _, p := range sorted {
				sb.WriteString(string(p))
			}
			so = sb.String()
		}
		out = append(out, "?|"+msgs+"|"+c30Snapshot(ps, n)+"|"+so)
	}
	if len(out) == 0 {
		return "-", stalled, false
	}
	return strings.Join(out, " "), stalled, false
}

func c30RunHandler(in string) string {
	var out string
	hangs := 0
	for attempt := 0; attempt < 6; attempt++ {
		var stalled, hung bool
		out, stalled, hung = c30RunHandlerOnce(in)
		if hung {
			hangs++
			if hangs >= 3 {
				c30Hangs++
				return out
			}
			continue
		}
		if !stalled {
			break
		}
	}
	return out
}

func c30GenHandler(r *vu.RNG, n int, emit func(string)) {
	// every action kind once, with the lists the dispatch has to pass on unchanged
	emit("hd 1 1 0 3 0:ap:0:ab 0:in:0:c 0:rp:-80000000:ac 0:ar:0:b 0:rr:0:b 0:sr:0:ca 0:rm:0:b 0:dc:0:c 0:in:0:abc")
	emit("hd 2 2 0 3 0:in:0:abc 0:rp:64:b 0:rp:-64:a 0:dc:0:a 0:dc:0:a")
	emit("hd 0 2 1 3 0:ar:0:ab 0:in:0:abc 0:sr:0:b 0:rr:0:b")
	for i := 0; i < n; i++ {
		np := 2 + r.Intn(3)
		maxIn, maxOut := r.Intn(4), r.Intn(4)
		ro := 0
		if r.Chance(1, 4) {
			ro = 1
		}
		l := 8 + r.Intn(15)
		ops := make([]string, l)
		for j := range ops {
			op := c30Op(r, np)
			a := strings.Split(op, ":")
			if a[1] == "dc" {
				a[2] = "0"
			}
			if a[0] != "0" && r.Chance(2, 3) { // fewer waits for the clock than in the main harness
				a[0] = "0"
			}
			ops[j] = strings.Join(a, ":")
		}
		emit(fmt.Sprintf("hd %x %x %d %x %s", maxIn, maxOut, ro, np, strings.Join(ops, " ")))
	}
}

func TestVerifC30Handler(t *testing.T) { vu.Run(t, "C30", 600, c30GenHandler, c30RunHandler) }
