(* C30 driver. Every observed step (state before, elapsed seconds, operation, error, messages,
   state after) of the Go PeerSet is checked twice:
   - the property predicates of ModelSpec (check_core, limits_step: what the theorems are about)
     are evaluated on the implementation's own observables;
   - the extracted model (variant [fixed] = repaired code) is started from the observed state
     before the step; the observed result must be one of its possible results (Go map iteration
     order is nondeterminism in the model).
   Grammar: see props/C30/harness_test.go. *)
open Model
open Vutil

let peer_of_char c = n_of_int (Char.code c - Char.code 'a')
let peers_of s = if s = "-" then [] else List.init (String.length s) (fun i -> peer_of_char s.[i])

type snap = { nin : n; nout : n; entries : (n * (node option) * bool * bool) list }

let parse_state d = match d with
  | '0' -> NotMember | '1' -> Ingoing | '2' -> Outgoing | '3' -> NotConnected
  | _ -> fail "C30: bad state %c" d

let parse_snap counters plist =
  let nin, nout = match String.split_on_char ',' counters with
    | [a; b] -> n_of_hex a, n_of_hex b | _ -> fail "C30: bad counters %s" counters in
  let entries = List.mapi (fun i tok ->
    let p = n_of_int i in
    if tok.[0] = '-' then (p, None, tok.[1] = 'r', tok.[2] = 'n')
    else match String.index_opt tok ':' with
      | Some j ->
        let rep = z_of_hex (String.sub tok (j + 1) (String.length tok - j - 1)) in
        (p, Some { n_st = parse_state tok.[0]; n_rep = rep; n_old = (tok.[1] = 'o') }, tok.[2] = 'r', tok.[3] = 'n')
      | None -> fail "C30: bad peer %s" tok) (String.split_on_char ',' plist) in
  { nin; nout; entries }

let pset_of maxin maxout ro sn ms =
  { nodes = List.filter_map (fun (p, nd, _, _) -> match nd with Some x -> Some (p, x) | None -> None) sn.entries;
    num_in = sn.nin; num_out = sn.nout; max_in = maxin; max_out = maxout;
    noslot = List.filter_map (fun (p, _, _, ns) -> if ns then Some p else None) sn.entries;
    lk = Unlocked;
    reserved = List.filter_map (fun (p, _, r, _) -> if r then Some p else None) sn.entries;
    ronly = ro; pending = N0; msgs = ms }

let parse_msgs s =
  if s = "-" then [] else begin
    let l = ref [] in
    let i = ref 0 in
    while !i + 1 < String.length s + 0 && !i < String.length s do
      let st = (match s.[!i] with 'C' -> MConnect | 'D' -> MDrop | 'A' -> MAccept | 'R' -> MReject
                                | c -> fail "C30: bad message %c" c) in
      l := (st, peer_of_char s.[!i + 1]) :: !l;      (* newest first *)
      i := !i + 2
    done; !l
  end

let string_of_err = function
  | None -> "ok"
  | Some ErrPeerDoesNotExist -> "e:noexist" | Some ErrPeerDisconnected -> "e:disconnected"
  | Some ErrOutgoingSlotsUnavailable -> "e:outslots" | Some ErrIncomingSlotsUnavailable -> "e:inslots"
  | Some ErrDisconnectNonConnected -> "e:nonconnected"

let parse_op tok = match String.split_on_char ':' tok with
  | [k; code; arg; ps] ->
    let ps' = peers_of ps in
    let o = (match code with
      | "ar" -> OAddReserved ps' | "rr" -> ORemoveReserved ps' | "sr" -> OSetReserved ps'
      | "rp" -> OReport (z_of_hex arg, ps') | "ap" -> OAddPeer ps' | "rm" -> ORemovePeer ps'
      | "in" -> OIncoming ps' | "dc" -> ODisconnect (arg = "1", ps') | "al" -> OAllocSlots
      | "ag" -> OAge ps'
      | _ -> fail "C30: bad op %s" tok) in
    (n_of_hex k, code, o, ps')
  | _ -> fail "C30: bad op %s" tok

let string_of_pset s =
  let st = function NotMember -> "0" | Ingoing -> "1" | Outgoing -> "2" | NotConnected -> "3" in
  Printf.sprintf "in=%s out=%s nodes=[%s] res=[%s] noslot=[%s] msgs=[%s]" (hex_of_n s.num_in) (hex_of_n s.num_out)
    (String.concat " " (List.map (fun (p, nd) -> Printf.sprintf "%s:%s%s:%s" (hex_of_n p) (st nd.n_st) (if nd.n_old then "o" else "f") (hex_of_z nd.n_rep)) s.nodes))
    (String.concat "," (List.map hex_of_n s.reserved)) (String.concat "," (List.map hex_of_n s.noslot))
    (String.concat "" (List.rev_map (fun (m, p) -> (match m with MConnect -> "C" | MDrop -> "D" | MAccept -> "A" | MReject -> "R") ^ hex_of_n p) s.msgs))

let check inp obs =
  match split_ws inp with
  | (("ps" | "hd") as kw) :: maxin :: maxout :: ro :: _np :: optoks ->
    let handler_mode = (kw = "hd") in
    let maxin = n_of_hex maxin and maxout = n_of_hex maxout and ro = (ro = "1") in
    if obs = "hang-budget" then
      { prop_ok = true; model_eq = true; nontrivial = false; finding = "-"; tags = "skipped-after-hang-budget"; detail = "" }
    else begin
    let obtoks = if obs = "-" then [] else split_ws obs in
    let tags = Hashtbl.create 16 in
    let tag t = Hashtbl.replace tags t () in
    if handler_mode then tag "via-handler";
    let prop = ref true and eq = ref true and details = Buffer.create 64 in
    let failing_in_guard = ref 0 and failing_outside = ref 0 in
    let nontriv = ref 0 in
    let cur = ref (init_pset maxin maxout ro) in
    let rec go i ops obsl = match ops, obsl with
      | _, [] -> if ops <> [] && i = 0 then () else ()
      | [], _ :: _ -> fail "C30: more observations than operations"
      | optok :: ops', ob :: obsl' ->
        let (k, code, o, plist) = parse_op optok in
        tag ("op-" ^ code);
        if k <> N0 then tag "ticks";
        let s0 = !cur in
        let outcomes = step fixed s0 k o in
        if List.length outcomes > 1 then tag "nondeterministic";
        if ob = "hang" || ob = "panic" then begin
          prop := false; incr failing_outside;
          tag ("abnormal-" ^ ob);
          let expected = List.exists (fun r -> match r with Deadlock -> ob = "hang" | Panicked -> ob = "panic" | _ -> false) outcomes in
          if not expected then eq := false;
          let pre = List.exists (fun r -> match r with Deadlock -> ob = "hang" | Panicked -> ob = "panic" | _ -> false) (step prefix s0 k o) in
          Buffer.add_string details (Printf.sprintf "op %d (%s): implementation %s%s; " i optok ob (if pre then " [= pre-fix model]" else ""))
        end else begin
          (match String.split_on_char '|' ob with
           | e :: ms :: counters :: plist' :: rest when List.length rest <= 1 ->
             let sn = parse_snap counters plist' in
             let s1 = pset_of maxin maxout ro sn (parse_msgs ms) in
             if ms <> "-" then String.iteri (fun j c -> if j mod 2 = 0 then tag ("msg-" ^ String.make 1 c)) ms;
             if e <> "ok" && e <> "?" then tag ("err-" ^ e);
             if List.length s1.nodes < List.length s0.nodes then tag "peer-forgotten";
             if ms <> "-" || e <> "ok" then incr nontriv;
             (* property predicates on the implementation's observables *)
             let core = check_core s0 k o s1 and lim = limits_step s0 s1 in
             if not (core && lim) then begin
               prop := false;
               let parts = List.filter_map (fun (nm, b) -> if b then None else Some nm)
                 [ ("counters", counters_ok s1); ("banned-connected", no_banned_ok s1); ("reserved-only", ronly_ok s1);
                   ("rep-range", reps_ok s1); ("messages-vs-state", view_ok s0 s1);
                   ("report-applies-to-each", (match o with OReport (d, ps) -> report_ok s0 k d ps s1 | _ -> true));
                   ("limits", lim) ] in
               if core && (not lim) && guard_unreserve s0 k o then incr failing_in_guard else incr failing_outside;
               Buffer.add_string details (Printf.sprintf "op %d (%s): property fails [%s]; " i optok (String.concat "," parts))
             end;
             if not (limits_ok s1) then tag "over-limit-state";
             (* the model: is the observed result one of its possible results? *)
             (* the handler harness cannot observe the error (the action loop only logs it): `?` *)
             let matches r = (match r with Ret (e', s') -> (e = "?" || string_of_err e' = e) && same_state s' s1 | _ -> false) in
             (* the answer of the sortedPeers action: the connected peers by non-increasing reputation *)
             (match rest with
              | [so] ->
                tag (if so = "-" then "sorted-empty" else if String.length so > 1 then "sorted-many" else "sorted-one");
                if not (sorted_ok s1 (peers_of so)) then begin
                  eq := false;
                  Buffer.add_string details (Printf.sprintf "op %d (%s): sortedPeers answered %s, not the connected peers by non-increasing reputation (reference answer: %s); " i optok so
                    (String.concat "" (List.map (fun p -> String.make 1 (Char.chr (Char.code 'a' + int_of_n p))) (sorted_peers s1))))
                end
              | _ -> ());
             if not (List.exists matches outcomes) then begin
               eq := false;
               let pre = List.exists matches (step prefix s0 k o) in
               let m1 = (match outcomes with
                 | Ret (e', s') :: _ -> string_of_err e' ^ " " ^ string_of_pset s'
                 | Deadlock :: _ -> "deadlock" | Panicked :: _ -> "panic" | OutOfFuel :: _ -> "out-of-fuel" | [] -> "none") in
               if Buffer.length details < 600 then
                 Buffer.add_string details (Printf.sprintf "op %d (%s): model differs%s: impl=%s %s model(1 of %d)=%s; " i optok
                   (if pre then " [impl = pre-fix model]" else "") e (string_of_pset s1) (List.length outcomes) m1)
             end;
             cur := s1
           | _ -> fail "C30: bad observation %s" ob);
          go (i + 1) ops' obsl'
        end in
    go 0 optoks obtoks;
    let finding = if !prop then "-" else if !failing_outside = 0 && !failing_in_guard > 0 then "unreserve-over-limit" else "-" in
    let tl = Hashtbl.fold (fun k () acc -> k :: acc) tags [] in
    { prop_ok = !prop; model_eq = !eq; nontrivial = (!nontriv >= 3); finding;
      tags = String.concat "," (List.sort compare tl); detail = Buffer.contents details }
    end
  | ["cst"] ->
    let model = hex_of_z banned_threshold ^ " " ^ hex_of_z disconnect_change in
    { prop_ok = true; model_eq = (model = obs); nontrivial = false; finding = "-"; tags = "constants";
      detail = if model = obs then "" else "constants differ: Model.v has " ^ model ^ ", the Go package has " ^ obs }
  | _ -> fail "C30: bad input %s" inp

(* vm_compute cross-check of the extraction: every observed step of a sampled case is re-evaluated
   inside Coq (ModelSpec.vm_step: the observed error and state are among the results of
   Model.step from the observed state before) *)
let coq_z (x : z) = match x with
  | Z0 -> "0%Z" | Zpos p -> "(Z.of_N " ^ coq_n (Npos p) ^ ")" | Zneg p -> "(Z.opp (Z.of_N " ^ coq_n (Npos p) ^ "))"
let coq_list f l = "[" ^ String.concat "; " (List.map f l) ^ "]"
let coq_bool b = if b then "true" else "false"
let coq_pset s =
  let st = function NotMember -> "NotMember" | Ingoing -> "Ingoing" | Outgoing -> "Outgoing" | NotConnected -> "NotConnected" in
  let nd (p, n) = Printf.sprintf "(%s, mkNode %s %s %s)" (coq_n p) (st n.n_st) (coq_z n.n_rep) (coq_bool n.n_old) in
  let ms (m, p) = Printf.sprintf "(%s, %s)" (match m with MConnect -> "MConnect" | MDrop -> "MDrop" | MAccept -> "MAccept" | MReject -> "MReject") (coq_n p) in
  Printf.sprintf "(mkPS %s %s %s %s %s %s Unlocked %s %s 0%%N %s)" (coq_list nd s.nodes) (coq_n s.num_in) (coq_n s.num_out)
    (coq_n s.max_in) (coq_n s.max_out) (coq_list coq_n s.noslot) (coq_list coq_n s.reserved) (coq_bool s.ronly) (coq_list ms s.msgs)
let coq_op o =
  let l = coq_list coq_n in
  match o with
  | OAddReserved ps -> "OAddReserved " ^ l ps | ORemoveReserved ps -> "ORemoveReserved " ^ l ps
  | OSetReserved ps -> "OSetReserved " ^ l ps | OReport (d, ps) -> Printf.sprintf "OReport %s %s" (coq_z d) (l ps)
  | OAddPeer ps -> "OAddPeer " ^ l ps | ORemovePeer ps -> "ORemovePeer " ^ l ps | OIncoming ps -> "OIncoming " ^ l ps
  | ODisconnect (r, ps) -> Printf.sprintf "ODisconnect %s %s" (coq_bool r) (l ps) | OAllocSlots -> "OAllocSlots"
  | OAge ps -> "OAge " ^ l ps
let coq inp obs =
  match split_ws inp with
  | ("ps" | "hd") :: maxin :: maxout :: ro :: _np :: optoks when obs <> "hang-budget" ->
    let maxin = n_of_hex maxin and maxout = n_of_hex maxout and ro = (ro = "1") in
    let obtoks = if obs = "-" then [] else split_ws obs in
    let cur = ref (init_pset maxin maxout ro) in
    let terms = ref [] and big = ref false in
    let rec go ops obsl = match ops, obsl with
      | optok :: ops', ob :: obsl' when ob <> "hang" && ob <> "panic" ->
        let (k, _, o, _) = parse_op optok in
        if int_of_n k > 1000 then big := true;   (* an hour of decay is too slow under vm_compute: such cases are not rendered *)
        (match String.split_on_char '|' ob with
         | e :: ms :: counters :: plist' :: _ ->
           let s1 = pset_of maxin maxout ro (parse_snap counters plist') (parse_msgs ms) in
           let e' = (match e with
             | "?" -> "None" | "ok" -> "(Some None)" | "e:noexist" -> "(Some (Some ErrPeerDoesNotExist))"
             | "e:disconnected" -> "(Some (Some ErrPeerDisconnected))" | "e:outslots" -> "(Some (Some ErrOutgoingSlotsUnavailable))"
             | "e:inslots" -> "(Some (Some ErrIncomingSlotsUnavailable))" | "e:nonconnected" -> "(Some (Some ErrDisconnectNonConnected))"
             | _ -> "(Some (Some ErrPeerDoesNotExist))") in
           terms := Printf.sprintf "vm_step %s %s (%s) %s %s" (coq_pset !cur) (coq_n k) (coq_op o) e' (coq_pset s1) :: !terms;
           cur := s1
         | _ -> ());
        go ops' obsl'
      | _ -> () in
    go optoks obtoks;
    if !terms = [] || !big then None else Some (String.concat "\n  && " (List.rev !terms))
  | _ -> None

let () = run_driver ~coq check
