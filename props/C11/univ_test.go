// Shared part of the C11 / C12 correspondence harnesses (injected into package pkg/scale by
// `go test -overlay` as zz_verif_univ_test.go): a textual universe of SCALE shapes.
//
// type description (no spaces):
//   u8 u16 u32 u64 i8 i16 i32 i64 uint int big u128 bool bytes str
//   opt(T) res(T,T) arr(<n decimal>,T) sl(T) map(T,T)
//   nm(T)                named Go type over the primitive T (pkg/scale's "custom primitive")
//   st(<tag>:T,...)      tag = _ (untagged) or a decimal `scale:"n"` index; declaration order
//   enum(<name>;<idx hex>:T,...)   a VaryingDataType registered below under <name>
// value (type directed, no spaces):
//   unsigned: hex   signed: [-]hex   bool: t|f   bytes/str: hex or - (empty)
//   opt: N | S<v>   res: O<v> | E<v> (U = unset, destinations only)   enum: V<idx hex>:<v>
//   arr/sl/st: [v,v,...] (struct fields in declaration order)   map: {k:v,...} keys ascending
//
// The concrete Go types are built from the descriptions by reflection (reflect.StructOf with
// scale tags, PtrTo for options, MapOf, ...); scale.Result prototypes are pre-set in fresh
// destinations (pkg/scale needs that); enums are instances of the generic svuVDT.
package scale

import (
	"fmt"
	"math/big"
	"reflect"
	"sort"
	"strconv"
	"strings"

	vu "github.com/ChainSafe/gossamer/internal/verifutil"
)

type svuKind int

const (
	svuPrim svuKind = iota
	svuOpt
	svuRes
	svuEnum
	svuArr
	svuSl
	svuMap
	svuSt
)

type svuTy struct {
	kind  svuKind
	prim  string // for svuPrim
	named bool   // nm(prim)
	n     int    // array length
	a, b  *svuTy // opt/sl/arr: a; res/map: a,b
	tags  []int  // struct: tag per field, -1 = untagged
	fs    []*svuTy
	name  string // enum name
	idx   []uint // enum indices
	gt    reflect.Type
}

// ---- named primitive types
type (
	svuNU8   uint8
	svuNU16  uint16
	svuNU32  uint32
	svuNU64  uint64
	svuNI8   int8
	svuNI16  int16
	svuNI32  int32
	svuNI64  int64
	svuNUint uint
	svuNInt  int
	svuNBool bool
	svuNStr  string
)

var svuPrimTypes = map[string]reflect.Type{
	"u8": reflect.TypeOf(uint8(0)), "u16": reflect.TypeOf(uint16(0)), "u32": reflect.TypeOf(uint32(0)),
	"u64": reflect.TypeOf(uint64(0)), "i8": reflect.TypeOf(int8(0)), "i16": reflect.TypeOf(int16(0)),
	"i32": reflect.TypeOf(int32(0)), "i64": reflect.TypeOf(int64(0)), "uint": reflect.TypeOf(uint(0)),
	"int": reflect.TypeOf(int(0)), "big": reflect.TypeOf((*big.Int)(nil)), "u128": reflect.TypeOf((*Uint128)(nil)),
	"bool": reflect.TypeOf(false), "bytes": reflect.TypeOf([]byte(nil)), "str": reflect.TypeOf(""),
}
var svuNamedTypes = map[string]reflect.Type{
	"u8": reflect.TypeOf(svuNU8(0)), "u16": reflect.TypeOf(svuNU16(0)), "u32": reflect.TypeOf(svuNU32(0)),
	"u64": reflect.TypeOf(svuNU64(0)), "i8": reflect.TypeOf(svuNI8(0)), "i16": reflect.TypeOf(svuNI16(0)),
	"i32": reflect.TypeOf(svuNI32(0)), "i64": reflect.TypeOf(svuNI64(0)), "uint": reflect.TypeOf(svuNUint(0)),
	"int": reflect.TypeOf(svuNInt(0)), "bool": reflect.TypeOf(svuNBool(false)), "str": reflect.TypeOf(svuNStr("")),
}

// ---- declared struct types for some table descriptions (field names as reflect.StructOf gives them)
type svuNamedS1 struct {
	F0 uint8  `scale:"2"`
	F1 uint16 `scale:"1"`
	F2 uint32 `scale:"0"`
}
type svuNamedS2 struct {
	F0 uint8 `scale:"1"`
	F1 uint16
	F2 uint32 `scale:"0"`
	F3 bool
}
type svuNamedS3 struct {
	F0 []byte
	F1 *string
	F2 uint
}
type svuNamedS4 struct {
	F0 *big.Int `scale:"5"`
	F1 *Uint128 `scale:"3"`
	F2 int
}

// wide structs (more than 12 fields: sort.Slice leaves insertion sort and is no longer stable, so
// the order of the untagged fields rests on the comparator alone)
type svuNamedW16 struct {
	F0  uint16
	F1  uint8
	F2  bool
	F3  uint8
	F4  uint32
	F5  uint16
	F6  uint8
	F7  bool
	F8  uint16
	F9  uint8
	F10 uint32
	F11 uint8
	F12 uint16
	F13 uint8 `scale:"1"`
	F14 bool
	F15 uint16 `scale:"0"`
}
type svuNamedW20 struct {
	F0  uint8
	F1  uint16
	F2  uint8
	F3  bool
	F4  uint32
	F5  uint8 `scale:"0"`
	F6  uint16
	F7  uint8
	F8  uint8
	F9  uint16
	F10 bool
	F11 uint8
	F12 uint32
	F13 uint8
	F14 uint16
	F15 uint8
	F16 uint8
	F17 uint16 `scale:"2"`
	F18 uint8
	F19 bool `scale:"1"`
}

const (
	svuWide16  = "st(_:u8,_:u16,_:bool,_:u8,_:u32,_:u16,_:u8,_:bool,_:u16,_:u8,_:u32,_:u8,_:u16,1:u8,_:bool,0:u16)"
	svuWide20  = "st(_:u16,_:u8,_:u8,_:bool,_:u32,0:u8,_:u16,_:u8,_:u16,_:u8,_:bool,_:u8,_:u32,_:u8,_:u16,_:u8,_:u8,2:u16,_:u8,1:bool)"
	svuWide13  = "st(_:u8,_:u8,_:u8,_:u8,_:u8,_:u8,3:u8,_:u8,_:u8,_:u8,_:u8,_:u8,_:u8)"
	svuNamed16 = "st(_:u16,_:u8,_:bool,_:u8,_:u32,_:u16,_:u8,_:bool,_:u16,_:u8,_:u32,_:u8,_:u16,1:u8,_:bool,0:u16)"
	svuNamed20 = "st(_:u8,_:u16,_:u8,_:bool,_:u32,0:u8,_:u16,_:u8,_:u8,_:u16,_:bool,_:u8,_:u32,_:u8,_:u16,_:u8,_:u8,2:u16,_:u8,1:bool)"
)

var svuNamedStructs = map[string]reflect.Type{
	svuNamed16: reflect.TypeOf(svuNamedW16{}),
	svuNamed20: reflect.TypeOf(svuNamedW20{}),
	"st(2:u8,1:u16,0:u32)":          reflect.TypeOf(svuNamedS1{}),
	"st(1:u8,_:u16,0:u32,_:bool)":   reflect.TypeOf(svuNamedS2{}),
	"st(_:bytes,_:opt(str),_:uint)": reflect.TypeOf(svuNamedS3{}),
	"st(5:big,3:u128,_:int)":        reflect.TypeOf(svuNamedS4{}),
}

// ---- enums: a generic VaryingDataType whose alternatives come from a schema type
type svuAlt struct {
	idx   uint
	proto any
}
type svuSchema interface{ alts() []svuAlt }

type svuVDT[S svuSchema] struct{ inner any }

func (v *svuVDT[S]) SetValue(value any) (err error) {
	var s S
	for _, a := range s.alts() {
		if reflect.TypeOf(a.proto) == reflect.TypeOf(value) {
			v.inner = value
			return nil
		}
	}
	return fmt.Errorf("%w: %T", ErrUnsupportedVaryingDataTypeValue, value)
}

func (v svuVDT[S]) IndexValue() (index uint, value any, err error) {
	if v.inner == nil {
		return 0, nil, ErrVaryingDataTypeNotSet
	}
	var s S
	for _, a := range s.alts() {
		if reflect.TypeOf(a.proto) == reflect.TypeOf(v.inner) {
			return a.idx, v.inner, nil
		}
	}
	return 0, nil, ErrUnsupportedVaryingDataTypeValue
}

func (v svuVDT[S]) Value() (value any, err error) {
	_, value, err = v.IndexValue()
	return
}

func (v svuVDT[S]) ValueAt(index uint) (value any, err error) {
	var s S
	for _, a := range s.alts() {
		if a.idx == index {
			return a.proto, nil
		}
	}
	return nil, ErrUnknownVaryingDataTypeValue
}

// schemas (alternatives are given as descriptions; Go types of the alternatives are distinct)
type svuSchemaA struct{}
type svuSchemaB struct{}
type svuSchemaC struct{}

const (
	svuEnumA = "enum(A;0:u8,1:bool,3:bytes,ff:u32)"
	svuEnumB = "enum(B;1:uint,2:st(_:u16,_:opt(u8)),4:" + svuEnumA + ",7:sl(u16))"
	svuEnumC = "enum(C;0:st(),5:big,9:opt(u64),a:arr(2,u16))"
)

func svuAltsOf(desc string) []svuAlt {
	t := svuParseTy(desc)
	out := make([]svuAlt, len(t.fs))
	for i, f := range t.fs {
		out[i] = svuAlt{idx: t.idx[i], proto: reflect.Zero(f.gt).Interface()}
	}
	return out
}

var svuAltCache = map[string][]svuAlt{}

func svuAltsCached(desc string) []svuAlt {
	if a, ok := svuAltCache[desc]; ok {
		return a
	}
	a := svuAltsOf(desc)
	svuAltCache[desc] = a
	return a
}
func (svuSchemaA) alts() []svuAlt { return svuAltsCached(svuEnumA) }
func (svuSchemaB) alts() []svuAlt { return svuAltsCached(svuEnumB) }
func (svuSchemaC) alts() []svuAlt { return svuAltsCached(svuEnumC) }

var svuEnumTypes = map[string]reflect.Type{
	"A": reflect.TypeOf(svuVDT[svuSchemaA]{}),
	"B": reflect.TypeOf(svuVDT[svuSchemaB]{}),
	"C": reflect.TypeOf(svuVDT[svuSchemaC]{}),
}
var svuEnumDescs = map[string]string{"A": svuEnumA, "B": svuEnumB, "C": svuEnumC}

// ---- parsing type descriptions
type svuParser struct {
	s   string
	pos int
}

func (p *svuParser) peek() byte {
	if p.pos < len(p.s) {
		return p.s[p.pos]
	}
	return 0
}
func (p *svuParser) eat(c byte) {
	if p.peek() != c {
		panic(fmt.Sprintf("svu: expected %c at %d in %q", c, p.pos, p.s))
	}
	p.pos++
}
func (p *svuParser) ident() string {
	st := p.pos
	for p.pos < len(p.s) {
		c := p.s[p.pos]
		if (c >= 'a' && c <= 'z') || (c >= 'A' && c <= 'Z') || (c >= '0' && c <= '9') || c == '_' || c == '-' {
			p.pos++
		} else {
			break
		}
	}
	return p.s[st:p.pos]
}

var svuTyCache = map[string]*svuTy{}

func svuParseTy(desc string) *svuTy {
	if t, ok := svuTyCache[desc]; ok {
		return t
	}
	p := &svuParser{s: desc}
	t := p.ty()
	if p.pos != len(desc) {
		panic("svu: trailing input in type " + desc)
	}
	svuTyCache[desc] = t
	return t
}

func (p *svuParser) ty() *svuTy {
	start := p.pos
	id := p.ident()
	if gt, ok := svuPrimTypes[id]; ok {
		return &svuTy{kind: svuPrim, prim: id, gt: gt}
	}
	switch id {
	case "nm":
		p.eat('(')
		in := p.ty()
		p.eat(')')
		gt, ok := svuNamedTypes[in.prim]
		if in.kind != svuPrim || !ok {
			panic("svu: nm() of unsupported type")
		}
		return &svuTy{kind: svuPrim, prim: in.prim, named: true, gt: gt}
	case "opt":
		p.eat('(')
		a := p.ty()
		p.eat(')')
		return &svuTy{kind: svuOpt, a: a, gt: reflect.PointerTo(a.gt)}
	case "sl":
		p.eat('(')
		a := p.ty()
		p.eat(')')
		return &svuTy{kind: svuSl, a: a, gt: reflect.SliceOf(a.gt)}
	case "arr":
		p.eat('(')
		n, err := strconv.Atoi(p.ident())
		if err != nil {
			panic("svu: array length")
		}
		p.eat(',')
		a := p.ty()
		p.eat(')')
		return &svuTy{kind: svuArr, n: n, a: a, gt: reflect.ArrayOf(n, a.gt)}
	case "res":
		p.eat('(')
		a := p.ty()
		p.eat(',')
		b := p.ty()
		p.eat(')')
		return &svuTy{kind: svuRes, a: a, b: b, gt: reflect.TypeOf(Result{})}
	case "map":
		p.eat('(')
		a := p.ty()
		p.eat(',')
		b := p.ty()
		p.eat(')')
		return &svuTy{kind: svuMap, a: a, b: b, gt: reflect.MapOf(a.gt, b.gt)}
	case "st":
		p.eat('(')
		t := &svuTy{kind: svuSt}
		var fields []reflect.StructField
		if p.peek() == ')' {
			p.pos++
		} else {
			for {
				tg := p.ident()
				p.eat(':')
				f := p.ty()
				tag := -1
				sf := reflect.StructField{Name: fmt.Sprintf("F%d", len(t.fs)), Type: f.gt}
				if tg != "_" {
					v, err := strconv.Atoi(tg)
					if err != nil {
						panic("svu: struct tag")
					}
					tag = v
					sf.Tag = reflect.StructTag(fmt.Sprintf(`scale:"%d"`, v))
				}
				t.tags = append(t.tags, tag)
				t.fs = append(t.fs, f)
				fields = append(fields, sf)
				if p.peek() == ',' {
					p.pos++
					continue
				}
				p.eat(')')
				break
			}
		}
		t.gt = reflect.StructOf(fields)
		if named, ok := svuNamedStructs[p.s[start:p.pos]]; ok {
			// a declared (named) struct type with the same fields: pkg/scale caches the field
			// order of named types only (fieldScaleIndicesCache), anonymous ones are recomputed
			t.gt = named
		}
		return t
	case "enum":
		p.eat('(')
		name := p.ident()
		p.eat(';')
		t := &svuTy{kind: svuEnum, name: name}
		for {
			ix, err := strconv.ParseUint(p.ident(), 16, 32)
			if err != nil {
				panic("svu: enum index")
			}
			p.eat(':')
			f := p.ty()
			t.idx = append(t.idx, uint(ix))
			t.fs = append(t.fs, f)
			if p.peek() == ',' {
				p.pos++
				continue
			}
			p.eat(')')
			break
		}
		gt, ok := svuEnumTypes[name]
		if !ok || svuEnumDescs[name] != p.s[start:p.pos] {
			panic("svu: enum " + name + " is not registered with this schema: " + p.s[start:p.pos])
		}
		t.gt = gt
		return t
	}
	panic(fmt.Sprintf("svu: unknown type %q in %q", id, p.s))
}

// ---- values: text -> reflect.Value of the described Go type

func (p *svuParser) token() string {
	st := p.pos
	for p.pos < len(p.s) {
		c := p.s[p.pos]
		if (c >= '0' && c <= '9') || (c >= 'a' && c <= 'f') || c == '-' {
			p.pos++
		} else {
			break
		}
	}
	return p.s[st:p.pos]
}

func svuBuild(t *svuTy, text string) reflect.Value {
	p := &svuParser{s: text}
	v := p.val(t)
	if p.pos != len(text) {
		panic("svu: trailing input in value")
	}
	return v
}

func svuBigOfHex(s string) *big.Int {
	v, ok := new(big.Int).SetString(s, 16)
	if !ok {
		panic("svu: bad number " + s)
	}
	return v
}

func (p *svuParser) val(t *svuTy) reflect.Value {
	out := reflect.New(t.gt).Elem()
	switch t.kind {
	case svuPrim:
		switch t.prim {
		case "bool":
			c := p.peek()
			p.pos++
			out.SetBool(c == 't')
		case "bytes":
			out.SetBytes(vu.UnHex(p.token()))
		case "str":
			out.SetString(string(vu.UnHex(p.token())))
		case "big":
			out.Set(reflect.ValueOf(svuBigOfHex(p.token())))
		case "u128":
			b := svuBigOfHex(p.token())
			lo := new(big.Int).And(b, new(big.Int).SetUint64(^uint64(0))).Uint64()
			hi := new(big.Int).Rsh(b, 64).Uint64()
			out.Set(reflect.ValueOf(&Uint128{Upper: hi, Lower: lo}))
		case "i8", "i16", "i32", "i64", "int":
			out.SetInt(vu.UnXI(p.token()))
		default:
			out.SetUint(vu.UnX(p.token()))
		}
	case svuOpt:
		c := p.peek()
		p.pos++
		if c == 'S' {
			inner := p.val(t.a)
			ptr := reflect.New(t.a.gt)
			ptr.Elem().Set(inner)
			out.Set(ptr)
		}
	case svuRes:
		c := p.peek()
		p.pos++
		res := svuResultProto(t)
		var err error
		if c == 'U' { // the unset prototype (only used to pre-populate destinations)
			out.Set(reflect.ValueOf(res))
			break
		}
		if c == 'O' {
			err = res.Set(OK, p.val(t.a).Interface())
		} else {
			err = res.Set(Err, p.val(t.b).Interface())
		}
		if err != nil {
			panic("svu: result set: " + err.Error())
		}
		out.Set(reflect.ValueOf(res))
	case svuEnum:
		p.eat('V')
		ix, err := strconv.ParseUint(p.token(), 16, 32)
		if err != nil {
			panic("svu: enum value index")
		}
		p.eat(':')
		var alt *svuTy
		for i, k := range t.idx {
			if k == uint(ix) {
				alt = t.fs[i]
			}
		}
		if alt == nil {
			panic("svu: enum value: no such alternative")
		}
		inner := p.val(alt)
		rets := out.Addr().MethodByName("SetValue").Call([]reflect.Value{inner})
		if !rets[0].IsNil() {
			panic(fmt.Sprint("svu: SetValue: ", rets[0].Interface()))
		}
	case svuArr, svuSl:
		p.eat('[')
		i := 0
		if p.peek() == ']' {
			p.pos++
		} else {
			for {
				e := p.val(t.a)
				if t.kind == svuArr {
					out.Index(i).Set(e)
				} else {
					out.Set(reflect.Append(out, e))
				}
				i++
				if p.peek() == ',' {
					p.pos++
					continue
				}
				p.eat(']')
				break
			}
		}
		if t.kind == svuSl && out.IsNil() {
			out.Set(reflect.MakeSlice(t.gt, 0, 0))
		}
	case svuSt:
		p.eat('[')
		for i, f := range t.fs {
			if i > 0 {
				p.eat(',')
			}
			out.Field(i).Set(p.val(f))
		}
		p.eat(']')
	case svuMap:
		p.eat('{')
		out.Set(reflect.MakeMap(t.gt))
		if p.peek() == '}' {
			p.pos++
		} else {
			for {
				k := p.val(t.a)
				p.eat(':')
				v := p.val(t.b)
				out.SetMapIndex(k, v)
				if p.peek() == ',' {
					p.pos++
					continue
				}
				p.eat('}')
				break
			}
		}
	}
	return out
}

// a scale.Result whose ok/err prototypes have the described types
func svuResultProto(t *svuTy) Result {
	return NewResult(svuFresh(t.a).Interface(), svuFresh(t.b).Interface())
}

// svuFresh returns a fresh destination value of the described type, with the scale.Result
// prototypes pkg/scale requires pre-set (only reachable through struct fields and results).
func svuFresh(t *svuTy) reflect.Value {
	out := reflect.New(t.gt).Elem()
	switch t.kind {
	case svuRes:
		out.Set(reflect.ValueOf(svuResultProto(t)))
	case svuSt:
		for i, f := range t.fs {
			out.Field(i).Set(svuFresh(f))
		}
	}
	return out
}

// ---- values: reflect.Value -> text
func svuRender(t *svuTy, v reflect.Value) string {
	var sb strings.Builder
	svuRenderTo(&sb, t, v)
	return sb.String()
}

func svuRenderTo(sb *strings.Builder, t *svuTy, v reflect.Value) {
	switch t.kind {
	case svuPrim:
		switch t.prim {
		case "bool":
			if v.Bool() {
				sb.WriteByte('t')
			} else {
				sb.WriteByte('f')
			}
		case "bytes":
			if v.Len() > 1<<17 {
				fmt.Fprintf(sb, "?big%x", v.Len()) // not rendered (only arises with hostile lengths)
			} else {
				sb.WriteString(vu.Hex(v.Bytes()))
			}
		case "str":
			if v.Len() > 1<<17 {
				fmt.Fprintf(sb, "?big%x", v.Len())
			} else {
				sb.WriteString(vu.Hex([]byte(v.String())))
			}
		case "big":
			b := v.Interface().(*big.Int)
			if b == nil {
				sb.WriteString("?nil")
			} else {
				sb.WriteString(b.Text(16))
			}
		case "u128":
			u := v.Interface().(*Uint128)
			if u == nil {
				sb.WriteString("?nil")
			} else {
				x := new(big.Int).Lsh(new(big.Int).SetUint64(u.Upper), 64)
				x.Add(x, new(big.Int).SetUint64(u.Lower))
				sb.WriteString(x.Text(16))
			}
		case "i8", "i16", "i32", "i64", "int":
			sb.WriteString(vu.XI(v.Int()))
		default:
			sb.WriteString(vu.X(v.Uint()))
		}
	case svuOpt:
		if v.IsNil() {
			sb.WriteByte('N')
		} else {
			sb.WriteByte('S')
			svuRenderTo(sb, t.a, v.Elem())
		}
	case svuRes:
		r := v.Interface().(Result)
		switch r.mode {
		case OK:
			sb.WriteByte('O')
			svuRenderTo(sb, t.a, reflect.ValueOf(r.ok))
		case Err:
			sb.WriteByte('E')
			svuRenderTo(sb, t.b, reflect.ValueOf(r.err))
		default:
			sb.WriteString("?unset")
		}
	case svuEnum:
		rets := v.MethodByName("Value").Call(nil)
		if !rets[1].IsNil() || rets[0].IsNil() {
			sb.WriteString("?unset")
			return
		}
		iv := rets[0].Elem()
		for i, f := range t.fs {
			if f.gt == iv.Type() {
				fmt.Fprintf(sb, "V%x:", t.idx[i])
				svuRenderTo(sb, f, iv)
				return
			}
		}
		sb.WriteString("?alt")
	case svuArr, svuSl:
		if v.Len() > 1<<17 {
			fmt.Fprintf(sb, "?big%x", v.Len())
			return
		}
		sb.WriteByte('[')
		for i := 0; i < v.Len(); i++ {
			if i > 0 {
				sb.WriteByte(',')
			}
			svuRenderTo(sb, t.a, v.Index(i))
		}
		sb.WriteByte(']')
	case svuSt:
		sb.WriteByte('[')
		for i, f := range t.fs {
			if i > 0 {
				sb.WriteByte(',')
			}
			svuRenderTo(sb, f, v.Field(i))
		}
		sb.WriteByte(']')
	case svuMap:
		keys := v.MapKeys()
		sort.Slice(keys, func(i, j int) bool { return keys[i].Uint() < keys[j].Uint() })
		sb.WriteByte('{')
		for i, k := range keys {
			if i > 0 {
				sb.WriteByte(',')
			}
			svuRenderTo(sb, t.a, k)
			sb.WriteByte(':')
			svuRenderTo(sb, t.b, v.MapIndex(k))
		}
		sb.WriteByte('}')
	}
}

// ---- generators

// the fixed type table (every kind, nesting, tags, enums); random types are generated besides
var svuTable = []string{
	"u8", "u16", "u32", "u64", "i8", "i16", "i32", "i64", "uint", "int", "big", "u128", "bool", "bytes", "str",
	"nm(u8)", "nm(u16)", "nm(u32)", "nm(u64)", "nm(i8)", "nm(i16)", "nm(i32)", "nm(i64)", "nm(uint)", "nm(int)",
	"nm(bool)", "nm(str)",
	"opt(u8)", "opt(bool)", "opt(uint)", "opt(big)", "opt(u128)", "opt(bytes)", "opt(opt(u16))", "opt(sl(u32))",
	"res(u8,bool)", "res(st(),str)", "res(uint,st())", "res(bytes,res(u16,i8))", "res(opt(u32),big)",
	svuEnumA, svuEnumB, svuEnumC, "sl(" + svuEnumA + ")", "opt(" + svuEnumC + ")",
	"arr(0,u8)", "arr(3,u16)", "arr(4,uint)", "arr(32,u8)", "arr(2,arr(2,i16))", "arr(2,opt(bool))",
	"sl(nm(u8))", "sl(u16)", "sl(uint)", "sl(big)", "sl(bytes)", "sl(str)", "sl(sl(u16))", "sl(opt(u64))", "sl(arr(2,u8))",
	"sl(st(_:u8,_:bool))", "sl(st(1:uint,0:bytes))",
	"map(u8,u16)", "map(u32,bytes)", "map(uint,bool)", "map(u64,opt(u8))", "map(u16,sl(i8))",
	"st()", "st(_:u8)", "st(_:u8,_:u16,_:u32)", "st(2:u8,1:u16,0:u32)", "st(1:u8,_:u16,0:u32,_:bool)",
	"st(_:bytes,_:opt(str),_:uint)", "st(5:big,3:u128,_:int)", "st(_:st(_:u8,_:st(1:bool,0:u16)),_:sl(u32))",
	"st(_:res(u8,bool),_:u16)", "st(0:" + svuEnumA + ",_:map(u8,u8))", "st(_:arr(3,uint),_:sl(i64))",
	"st(10:u8,9:u8,8:u8,7:u8,6:u8,5:u8,4:u8,3:u8,2:u8,1:u8,0:u8)",
	svuWide13, svuWide16, svuWide20, svuNamed16, svuNamed20, "sl(" + svuWide16 + ")",
}

var svuPrimNames = []string{"u8", "u16", "u32", "u64", "i8", "i16", "i32", "i64", "uint", "int", "big", "u128", "bool", "bytes", "str"}
var svuKeyNames = []string{"u8", "u16", "u32", "u64", "uint"}

// svuGenTy generates a random type description. resOK: a scale.Result is usable here (root,
// struct field, result branch); nonEmpty: the type must occupy at least one byte (slice element).
func svuGenTy(r *vu.RNG, depth int, resOK bool) string {
	if depth <= 0 || r.Chance(2, 5) {
		p := svuPrimNames[r.Intn(len(svuPrimNames))]
		if _, ok := svuNamedTypes[p]; ok && r.Chance(1, 8) {
			return "nm(" + p + ")"
		}
		return p
	}
	switch r.Intn(9) {
	case 0:
		return "opt(" + svuGenTy(r, depth-1, false) + ")"
	case 1:
		if resOK {
			return "res(" + svuGenTy(r, depth-1, true) + "," + svuGenTy(r, depth-1, true) + ")"
		}
		return "opt(" + svuGenTy(r, depth-1, false) + ")"
	case 2:
		return []string{svuEnumA, svuEnumB, svuEnumC}[r.Intn(3)]
	case 3:
		return fmt.Sprintf("arr(%d,%s)", r.Intn(5), svuGenTy(r, depth-1, false))
	case 4, 5:
		for {
			e := svuGenTy(r, depth-1, false)
			if e == "u8" {
				continue // []uint8 is []byte (desc "bytes"); sl(nm(u8)) is the element-wise slice
			}
			if svuMinSize(svuParseTy(e)) >= 1 {
				return "sl(" + e + ")"
			}
		}
	case 6:
		return "map(" + svuKeyNames[r.Intn(len(svuKeyNames))] + "," + svuGenTy(r, depth-1, false) + ")"
	default:
		if r.Chance(1, 6) { // a wide struct of primitives: 13..24 fields, one to three of them tagged
			n := 13 + r.Intn(12)
			small := []string{"u8", "u16", "u32", "bool", "i8", "i16"}
			fs := make([]string, n)
			for i := range fs {
				fs[i] = "_:" + small[r.Intn(len(small))]
			}
			for k, used := 0, map[int]bool{}; k < 1+r.Intn(3); k++ {
				i := r.Intn(n)
				if !used[i] {
					used[i] = true
					fs[i] = strconv.Itoa(k) + fs[i][1:]
				}
			}
			return "st(" + strings.Join(fs, ",") + ")"
		}
		n := r.Intn(5)
		tagged := r.Chance(1, 2)
		perm := make([]int, n)
		for i := range perm {
			perm[i] = i * (1 + r.Intn(2))
			if i > 0 && perm[i] <= perm[i-1] {
				perm[i] = perm[i-1] + 1
			}
		}
		// shuffle the tags
		for i := n - 1; i > 0; i-- {
			j := r.Intn(i + 1)
			perm[i], perm[j] = perm[j], perm[i]
		}
		var fs []string
		for i := 0; i < n; i++ {
			tg := "_"
			if tagged && r.Chance(3, 4) {
				tg = strconv.Itoa(perm[i])
			}
			fs = append(fs, tg+":"+svuGenTy(r, depth-1, resOK))
		}
		return "st(" + strings.Join(fs, ",") + ")"
	}
}

func svuMinSize(t *svuTy) int {
	switch t.kind {
	case svuPrim:
		switch t.prim {
		case "u16", "i16":
			return 2
		case "u32", "i32":
			return 4
		case "u64", "i64":
			return 8
		case "u128":
			return 16
		}
		return 1
	case svuArr:
		return t.n * svuMinSize(t.a)
	case svuSt:
		s := 0
		for _, f := range t.fs {
			s += svuMinSize(f)
		}
		return s
	}
	return 1
}

// boundary-directed unsigned numbers below 2^bits (bits <= 64)
func svuGenU(r *vu.RNG, bits uint) uint64 {
	mask := ^uint64(0)
	if bits < 64 {
		mask = (uint64(1) << bits) - 1
	}
	var v uint64
	switch r.Intn(8) {
	case 0:
		v = uint64(r.Intn(70))
	case 1: // compact mode boundaries
		b := []uint64{1 << 6, 1 << 14, 1 << 30, 1 << 32}[r.Intn(4)]
		v = b - 1 + uint64(r.Intn(3))
	case 2: // byte-length boundaries 2^(8k)
		k := uint(r.Range(1, 8))
		if k == 8 {
			v = ^uint64(0) - uint64(r.Intn(2))
		} else {
			v = (uint64(1) << (8 * k)) - 1 + uint64(r.Intn(3))
		}
	case 3:
		v = mask - uint64(r.Intn(2))
	case 4: // a random value of a random byte length
		k := uint(r.Range(1, 8))
		v = r.U64() >> (64 - 8*k)
	case 5: // interior zero bytes
		v = r.U64()
		for i := 0; i < 1+r.Intn(4); i++ {
			v &^= uint64(0xff) << (uint(r.Intn(8)) * 8)
		}
	default:
		v = r.U64()
	}
	return v & mask
}

func svuGenBig(r *vu.RNG, maxBytes int) *big.Int {
	switch r.Intn(6) {
	case 0:
		return new(big.Int).SetUint64(svuGenU(r, 64))
	case 1: // exactly at a byte-length boundary 2^(8k) - 1, 2^(8k), 2^(8k) + 1
		k := r.Range(1, maxBytes)
		v := new(big.Int).Lsh(big.NewInt(1), uint(8*k))
		v.Add(v, big.NewInt(int64(r.Intn(3)-1)))
		if v.BitLen() > 8*maxBytes {
			v.Sub(v, big.NewInt(2))
		}
		return v
	case 2: // the largest
		v := new(big.Int).Lsh(big.NewInt(1), uint(8*maxBytes))
		return v.Sub(v, big.NewInt(int64(1+r.Intn(2))))
	default:
		k := r.Range(1, maxBytes)
		b := r.Bytes(k)
		if r.Chance(1, 2) && b[0] == 0 {
			b[0] = 1
		}
		return new(big.Int).SetBytes(b)
	}
}

func svuGenLen(r *vu.RNG) int {
	switch r.Intn(10) {
	case 0:
		return 0
	case 1:
		return []int{63, 64, 65}[r.Intn(3)]
	case 2:
		if r.Chance(1, 6) {
			return []int{16383, 16384, 16385}[r.Intn(3)]
		}
		return r.Intn(200)
	default:
		return r.Intn(6)
	}
}

// svuGenVal generates the text of a random value of the described type. budget bounds the
// total size.
func svuGenVal(r *vu.RNG, t *svuTy, budget *int) string {
	*budget--
	switch t.kind {
	case svuPrim:
		switch t.prim {
		case "u8":
			return vu.X(svuGenU(r, 8))
		case "u16":
			return vu.X(svuGenU(r, 16))
		case "u32":
			return vu.X(svuGenU(r, 32))
		case "u64", "uint":
			return vu.X(svuGenU(r, 64))
		case "i8":
			return vu.XI(int64(int8(svuGenU(r, 8))))
		case "i16":
			return vu.XI(int64(int16(svuGenU(r, 16))))
		case "i32":
			return vu.XI(int64(int32(svuGenU(r, 32))))
		case "i64", "int":
			return vu.XI(int64(svuGenU(r, 64)))
		case "big":
			return svuGenBig(r, 67).Text(16)
		case "u128":
			return svuGenBig(r, 16).Text(16)
		case "bool":
			if r.Chance(1, 2) {
				return "t"
			}
			return "f"
		default: // bytes, str
			n := svuGenLen(r)
			if n > *budget {
				n = r.Intn(4)
			}
			*budget -= n / 8
			return vu.Hex(r.Bytes(n))
		}
	case svuOpt:
		if r.Chance(1, 3) {
			return "N"
		}
		return "S" + svuGenVal(r, t.a, budget)
	case svuRes:
		if r.Chance(1, 2) {
			return "O" + svuGenVal(r, t.a, budget)
		}
		return "E" + svuGenVal(r, t.b, budget)
	case svuEnum:
		i := r.Intn(len(t.fs))
		return fmt.Sprintf("V%x:%s", t.idx[i], svuGenVal(r, t.fs[i], budget))
	case svuArr, svuSl:
		n := t.n
		if t.kind == svuSl {
			n = svuGenLen(r)
			if n > *budget {
				n = r.Intn(3)
			}
		}
		parts := make([]string, n)
		for i := range parts {
			parts[i] = svuGenVal(r, t.a, budget)
		}
		return "[" + strings.Join(parts, ",") + "]"
	case svuSt:
		parts := make([]string, len(t.fs))
		for i, f := range t.fs {
			parts[i] = svuGenVal(r, f, budget)
		}
		return "[" + strings.Join(parts, ",") + "]"
	case svuMap:
		n := 0
		switch r.Intn(8) {
		case 0:
			n = 0
		case 1:
			n = 2 + r.Intn(3) // multi-entry maps: iteration order is not a function of the value
		default:
			n = 1
		}
		seen := map[uint64]bool{}
		var keys []uint64
		for len(keys) < n {
			var k uint64
			switch t.a.prim {
			case "u8":
				k = svuGenU(r, 8)
			case "u16":
				k = svuGenU(r, 16)
			case "u32":
				k = svuGenU(r, 32)
			default:
				k = svuGenU(r, 64)
			}
			if !seen[k] {
				seen[k] = true
				keys = append(keys, k)
			}
		}
		sort.Slice(keys, func(i, j int) bool { return keys[i] < keys[j] })
		parts := make([]string, n)
		for i, k := range keys {
			parts[i] = vu.X(k) + ":" + svuGenVal(r, t.b, budget)
		}
		return "{" + strings.Join(parts, ",") + "}"
	}
	panic("svu: gen kind")
}

// svuGenDirt generates the text of a value to PRE-POPULATE a decode destination with (decoding
// must not depend on what the destination held before).  Two kinds of content are left out,
// because pkg/scale's handling of them is recorded separately (see props/C12/harness_test.go):
// maps are empty (decodeMap adds to a non-empty destination map, like encoding/json), and an
// option whose element is itself represented by a Go pointer (option, *big.Int, *Uint128) is
// None (finding C12 dirty-nested-option).
func svuGenDirt(r *vu.RNG, t *svuTy, budget *int) string {
	*budget--
	switch t.kind {
	case svuOpt:
		ptrRepr := t.a.kind == svuOpt || (t.a.kind == svuPrim && (t.a.prim == "big" || t.a.prim == "u128"))
		if ptrRepr || r.Chance(1, 5) {
			return "N"
		}
		return "S" + svuGenDirt(r, t.a, budget)
	case svuRes:
		// a scale.Result can be set once (Set returns ErrResultAlreadySet afterwards), so a
		// destination Result is always the unset prototype: value text U
		return "U"
	case svuEnum:
		i := r.Intn(len(t.fs))
		return fmt.Sprintf("V%x:%s", t.idx[i], svuGenDirt(r, t.fs[i], budget))
	case svuArr, svuSl:
		n := t.n
		if t.kind == svuSl {
			n = 1 + r.Intn(3)
			if *budget < 0 {
				n = 0
			}
		}
		parts := make([]string, n)
		for i := range parts {
			parts[i] = svuGenDirt(r, t.a, budget)
		}
		return "[" + strings.Join(parts, ",") + "]"
	case svuSt:
		parts := make([]string, len(t.fs))
		for i, f := range t.fs {
			parts[i] = svuGenDirt(r, f, budget)
		}
		return "[" + strings.Join(parts, ",") + "]"
	case svuMap:
		return "{}"
	}
	return svuGenVal(r, t, budget)
}

// svuPickTy picks a table type or generates a random one.
func svuPickTy(r *vu.RNG) string {
	if r.Chance(1, 2) {
		return svuTable[r.Intn(len(svuTable))]
	}
	return svuGenTy(r, 3, true)
}
