// C11 correspondence harness (injected into package pkg/scale by `go test -overlay`, together
// with props/C11/univ_test.go which documents the type / value grammar).
//
// inputs:
//   enc <type> <value> [<dirt>]   Marshal the value of the described Go type, Unmarshal the bytes into a
//                             fresh destination of the same type, or, with the third field, into a
//                             destination that already holds the value <dirt> (a reused variable)
//   order <struct type>       the encoding order of the fields (observed with distinct one-byte values)
// observables:
//   enc   -> <hex of Marshal | err | nondet> <value text of Unmarshal(Marshal v) | err | left:<n> | ~>
//            nondet: 200 Marshal calls of a value containing a map with >= 2 entries did not all
//            give the same bytes (the round trip is made with the first of them)
//   order -> the field indices (declaration positions, hex) in encoding order, comma separated
package scale

import (
	"bytes"
	"fmt"
	"reflect"
	"strings"
	"testing"

	vu "github.com/ChainSafe/gossamer/internal/verifutil"
)

func c11HasMultiMap(t *svuTy, v reflect.Value) bool {
	switch t.kind {
	case svuOpt:
		return !v.IsNil() && c11HasMultiMap(t.a, v.Elem())
	case svuRes:
		r := v.Interface().(Result)
		if r.mode == OK {
			return c11HasMultiMap(t.a, reflect.ValueOf(r.ok))
		}
		return c11HasMultiMap(t.b, reflect.ValueOf(r.err))
	case svuEnum:
		rets := v.MethodByName("Value").Call(nil)
		if rets[0].IsNil() {
			return false
		}
		iv := rets[0].Elem()
		for _, f := range t.fs {
			if f.gt == iv.Type() {
				return c11HasMultiMap(f, iv)
			}
		}
	case svuArr, svuSl:
		for i := 0; i < v.Len(); i++ {
			if c11HasMultiMap(t.a, v.Index(i)) {
				return true
			}
		}
	case svuSt:
		for i, f := range t.fs {
			if c11HasMultiMap(f, v.Field(i)) {
				return true
			}
		}
	case svuMap:
		if v.Len() >= 2 {
			return true
		}
		for _, k := range v.MapKeys() {
			if c11HasMultiMap(t.b, v.MapIndex(k)) {
				return true
			}
		}
	}
	return false
}

func c11Gen(r *vu.RNG, n int, emit func(string)) {
	// fixed boundary corpus: every compact boundary and every byte length for uint / int / big
	for _, ty := range []string{"uint", "int", "big", "nm(uint)", "opt(uint)", "sl(uint)"} {
		for k := uint(0); k <= 64; k++ {
			for d := -1; d <= 1; d++ {
				if k == 64 && d >= 0 {
					continue
				}
				x := uint64(1)<<k + uint64(d)
				if k == 64 {
					x = ^uint64(0)
				}
				var v string
				switch ty {
				case "int":
					v = vu.XI(int64(x))
				case "opt(uint)":
					v = "S" + vu.X(x)
				case "sl(uint)":
					v = "[" + vu.X(x) + "]"
				default:
					v = vu.X(x)
				}
				emit("enc " + ty + " " + v)
			}
		}
	}
	for k := 0; k <= 67; k++ { // big integers of every byte length 1..67
		if k < 67 {
			emit("enc big 1" + strings.Repeat("00", k))
		}
		if k > 0 {
			emit("enc big " + strings.Repeat("ff", k))
			emit("enc big 80" + strings.Repeat("00", k-1))
		}
	}
	for _, l := range []int{0, 1, 63, 64, 65, 16383, 16384, 16385} { // length-prefix boundaries
		emit("enc bytes " + vu.Hex(bytes.Repeat([]byte{0xab}, l)))
		emit("enc str " + vu.Hex(bytes.Repeat([]byte{'x'}, l)))
		parts := make([]string, l)
		for i := range parts {
			parts[i] = vu.X(uint64(i & 0xff))
		}
		emit("enc sl(nm(u8)) [" + strings.Join(parts, ",") + "]")
	}
	{ // sequences longer than 2^16 elements / bytes
		parts := make([]string, 65537)
		for i := range parts {
			parts[i] = vu.X(uint64(i & 0xff))
		}
		emit("enc sl(u16) [" + strings.Join(parts, ",") + "]")
		emit("enc sl(nm(u8)) [" + strings.Join(parts[:65536], ",") + "]")
		emit("enc bytes " + vu.Hex(bytes.Repeat([]byte{0x5a}, 65537)))
	}
	for _, d := range svuTable {
		if svuParseTy(d).kind == svuSt {
			emit("order " + d)
		}
	}
	// wide structs with distinct field values: any exchange of two fields changes the bytes
	for _, d := range []string{svuWide13, svuWide16, svuWide20, svuNamed16, svuNamed20} {
		t := svuParseTy(d)
		parts := make([]string, len(t.fs))
		for i, f := range t.fs {
			if f.prim == "bool" {
				parts[i] = []string{"t", "f"}[i%2]
			} else {
				parts[i] = vu.X(uint64(0x11 + i))
			}
		}
		emit("enc " + d + " [" + strings.Join(parts, ",") + "]")
	}
	// reused destinations: None / shorter / other-variant values over a destination holding more
	emit("enc opt(u16) N S7")
	emit("enc opt(u16) S5 S7")
	emit("enc st(_:bytes,_:opt(str),_:uint) [-,N,0] [010203,S616263,7]")
	emit("enc sl(opt(u64)) [N] [S1,S2,S3]")
	emit("enc sl(u16) [] [1,2,3]")
	emit("enc arr(2,opt(bool)) [N,Sf] [St,St]")
	emit("enc st(_:res(u8,bool),_:u16) [Et,0] [U,7]")
	emit("enc " + svuEnumC + " V9:N V9:S5")
	emit("enc " + svuEnumA + " V1:t V3:aabb")
	emit("enc bytes - aabbcc")
	emit("enc big 0 ffffffffffffffffffff")
	emit("enc u128 1 ffffffffffffffffffffffffffffffff")
	emit("enc st(_:st(_:u8,_:st(1:bool,0:u16)),_:sl(u32)) [[0,[f,0]],[]] [[9,[t,9]],[1,2]]")
	for i := 0; i < n; i++ {
		d := svuPickTy(r)
		t := svuParseTy(d)
		if t.kind == svuSt && r.Chance(1, 10) {
			emit("order " + d)
			continue
		}
		budget := 400
		val := svuGenVal(r, t, &budget)
		if r.Chance(1, 5) { // round trip into a destination that already holds another value
			db := 60
			emit("enc " + d + " " + val + " " + svuGenDirt(r, t, &db))
			continue
		}
		emit("enc " + d + " " + val)
	}
}

func c11Run(in string) string {
	f := strings.Split(in, " ")
	switch f[0] {
	case "enc":
		t := svuParseTy(f[1])
		v := svuBuild(t, f[2])
		enc, err := Marshal(v.Interface())
		if err != nil {
			return "err ~"
		}
		nondet := false
		if c11HasMultiMap(t, v) {
			for i := 0; i < 200; i++ {
				e2, err := Marshal(v.Interface())
				if err != nil {
					return "err ~"
				}
				if !bytes.Equal(enc, e2) {
					nondet = true
					break
				}
			}
		}
		dst := reflect.New(t.gt)
		if len(f) == 4 {
			dst.Elem().Set(svuBuild(t, f[3]))
		} else {
			dst.Elem().Set(svuFresh(t))
		}
		first := vu.Hex(enc)
		if nondet {
			first = "nondet"
		}
		buf := bytes.NewBuffer(append([]byte{}, enc...))
		err = NewDecoder(buf).Decode(dst.Interface())
		if err != nil {
			return first + " err"
		}
		if buf.Len() != 0 {
			return first + " left:" + vu.X(uint64(buf.Len()))
		}
		return first + " " + svuRender(t, dst.Elem())
	case "order":
		t := svuParseTy(f[1])
		// give field i the one-byte value i (fields of any type are replaced by u8 with the same tags)
		var fs []string
		for i, tg := range t.tags {
			s := "_"
			if tg >= 0 {
				s = fmt.Sprint(tg)
			}
			_ = i
			fs = append(fs, s+":u8")
		}
		t8 := svuParseTy("st(" + strings.Join(fs, ",") + ")")
		v := reflect.New(t8.gt).Elem()
		for i := range t8.fs {
			v.Field(i).SetUint(uint64(i))
		}
		enc, err := Marshal(v.Interface())
		if err != nil {
			return "err"
		}
		parts := make([]string, len(enc))
		for i, b := range enc {
			parts[i] = vu.X(uint64(b))
		}
		if len(parts) == 0 {
			return "-"
		}
		return strings.Join(parts, ",")
	}
	return "err:badinput"
}

func TestVerifC11(t *testing.T) { vu.Run(t, "C11", 20000, c11Gen, c11Run) }
