(* scaleuniv.ml — shared by the C11 / C12 / C33 drivers: the textual grammar of type descriptions
   and values exchanged with the Go harness (props/C11/univ_test.go), mapped to the extracted
   Scale universe (Model.ty / Model.value).

   type description (no spaces):
     u8 u16 u32 u64 i8 i16 i32 i64 uint int big u128 bool bytes str
     opt(T) res(T,T) arr(<n decimal>,T) sl(T) map(T,T) nm(T)
     st(<tag>:T,...)      tag = _ (untagged) or a decimal integer; fields in DECLARATION order
     enum(<name>;<idx hex>:T,...)
   value (type directed, no spaces):
     unsigned: hex      signed: [-]hex      bool: t|f      bytes/str: hex or - (empty)
     opt: N | S<v>      res: O<v> | E<v>    enum: V<idx hex>:<v>
     arr/sl/st: [v,v,...]   (struct fields in DECLARATION order)      map: {k:v,...} ascending keys
   The driver-side glue permutes struct components between declaration order and wire order with
   the extracted Scale.FieldOrder.field_order (the model of fieldScaleIndices). *)
open Model
open Vutil

type dty =
  | DPrim of ty
  | DOpt of dty
  | DRes of dty * dty
  | DEnum of (int * dty) list
  | DArr of int * dty
  | DSl of dty
  | DMap of dty * dty
  | DSt of (int option * dty) list

exception Parse of string
let perr fmt = Printf.ksprintf (fun s -> raise (Parse s)) fmt

(* ---------------------------------------------------------------- type descriptions *)
let parse_dty (s : string) : dty =
  let n = String.length s in
  let pos = ref 0 in
  let peek () = if !pos < n then s.[!pos] else '\000' in
  let eat c = if peek () = c then incr pos else perr "type: expected %c at %d in %s" c !pos s in
  let ident () =
    let st = !pos in
    while !pos < n && (match s.[!pos] with 'a'..'z' | 'A'..'Z' | '0'..'9' | '_' | '-' -> true | _ -> false) do incr pos done;
    String.sub s st (!pos - st) in
  let rec ty () : dty =
    let id = ident () in
    match id with
    | "u8" -> DPrim TU8 | "u16" -> DPrim TU16 | "u32" -> DPrim TU32 | "u64" -> DPrim TU64
    | "i8" -> DPrim TI8 | "i16" -> DPrim TI16 | "i32" -> DPrim TI32 | "i64" -> DPrim TI64
    | "uint" -> DPrim TUint | "int" -> DPrim TInt | "big" -> DPrim TBig | "u128" -> DPrim TU128
    | "bool" -> DPrim TBool | "bytes" -> DPrim TBytes | "str" -> DPrim TStr
    | "opt" -> eat '('; let t = ty () in eat ')'; DOpt t
    | "nm" -> eat '('; let t = ty () in eat ')'; t
    | "sl" -> eat '('; let t = ty () in eat ')'; DSl t
    | "res" -> eat '('; let a = ty () in eat ','; let b = ty () in eat ')'; DRes (a, b)
    | "map" -> eat '('; let a = ty () in eat ','; let b = ty () in eat ')'; DMap (a, b)
    | "arr" -> eat '('; let k = int_of_string (ident ()) in eat ','; let t = ty () in eat ')'; DArr (k, t)
    | "st" ->
      eat '(';
      let fs = ref [] in
      if peek () = ')' then incr pos else begin
        let continue = ref true in
        while !continue do
          let tg = ident () in
          eat ':';
          let t = ty () in
          fs := ((if tg = "_" then None else Some (int_of_string tg)), t) :: !fs;
          if peek () = ',' then incr pos else (eat ')'; continue := false)
        done
      end;
      DSt (List.rev !fs)
    | "enum" ->
      eat '('; let _name = ident () in eat ';';
      let alts = ref [] in
      let continue = ref true in
      while !continue do
        let ix = int_of_string ("0x" ^ ident ()) in
        eat ':';
        let t = ty () in
        alts := (ix, t) :: !alts;
        if peek () = ',' then incr pos else (eat ')'; continue := false)
      done;
      DEnum (List.rev !alts)
    | _ -> perr "type: unknown %s in %s" id s in
  let t = ty () in
  if !pos <> n then perr "type: trailing input in %s" s;
  t

(* wire order of a struct's fields: positions (in declaration order) in encoding order *)
let wire_order (fs : (int option * dty) list) : int list =
  let tags = List.map (fun (tg, _) -> match tg with None -> FNone | Some k -> FIdx (z_of_int k)) fs in
  List.map int_of_nat (field_order tags)

let rec wire_ty (d : dty) : ty =
  match d with
  | DPrim t -> t
  | DOpt t -> TOption (wire_ty t)
  | DRes (a, b) -> TResult (wire_ty a, wire_ty b)
  | DEnum alts ->
    TEnum (List.fold_right (fun (ix, t) acc -> TCons (Some (n_of_int ix), wire_ty t, acc)) alts TNil)
  | DArr (k, t) -> TArray (nat_of_int k, wire_ty t)
  | DSl t -> TSlice (wire_ty t)
  | DMap (a, b) -> TMap (wire_ty a, wire_ty b)
  | DSt fs ->
    let arr = Array.of_list fs in
    let ord = wire_order fs in
    TStruct (List.fold_right (fun i acc ->
        let (tg, t) = arr.(i) in
        TCons ((match tg with None -> None | Some k -> if k >= 0 then Some (n_of_int k) else None), wire_ty t, acc))
        ord TNil)

let rec vals_of_list l = match l with [] -> VNil | v :: r -> VCons (v, vals_of_list r)
let rec list_of_vals l = match l with VNil -> [] | VCons (v, r) -> v :: list_of_vals r
let rec kvals_of_list l = match l with [] -> KNil | (k, v) :: r -> KCons (k, v, kvals_of_list r)
let rec list_of_kvals l = match l with KNil -> [] | KCons (k, v, r) -> (k, v) :: list_of_kvals r

(* ---------------------------------------------------------------- values *)
let is_signed = function TI8 | TI16 | TI32 | TI64 | TInt -> true | _ -> false

let parse_value (d : dty) (s : string) : value =
  let n = String.length s in
  let pos = ref 0 in
  let peek () = if !pos < n then s.[!pos] else '\000' in
  let eat c = if peek () = c then incr pos else perr "value: expected %c at %d in %s" c !pos (String.sub s 0 (min n 200)) in
  let token () =
    let st = !pos in
    while !pos < n && (match s.[!pos] with '0'..'9' | 'a'..'f' | '-' -> true | _ -> false) do incr pos done;
    String.sub s st (!pos - st) in
  let rec v (d : dty) : value =
    match d with
    | DPrim TBool -> let c = peek () in incr pos;
      (match c with 't' -> VBool true | 'f' -> VBool false | _ -> perr "value: bool at %d" !pos)
    | DPrim (TBytes | TStr) -> let t = token () in VBytes (bytes_of_hex t)
    | DPrim t when is_signed t -> VZ (z_of_hex (token ()))
    | DPrim _ -> let t = token () in if t = "" then perr "value: number expected at %d" !pos; VN (n_of_hex t)
    | DOpt t -> let c = peek () in incr pos;
      (match c with 'N' -> VNone | 'S' -> VSome (v t) | _ -> perr "value: option at %d" !pos)
    | DRes (a, b) -> let c = peek () in incr pos;
      (match c with 'O' -> VOk (v a) | 'E' -> VErr (v b)
                  | 'U' -> VNone (* the unset prototype of a destination: holds no value *)
                  | _ -> perr "value: result at %d" !pos)
    | DEnum alts ->
      eat 'V'; let ix = int_of_string ("0x" ^ token ()) in eat ':';
      (match List.assoc_opt ix alts with
       | Some t -> VEnum (n_of_int ix, v t)
       | None -> perr "value: enum index %d" ix)
    | DArr (_, t) | DSl t ->
      eat '[';
      let l = ref [] in
      if peek () = ']' then incr pos else begin
        let continue = ref true in
        while !continue do
          l := v t :: !l;
          if peek () = ',' then incr pos else (eat ']'; continue := false)
        done
      end;
      VList (vals_of_list (List.rev !l))
    | DSt fs ->
      eat '[';
      let l = ref [] in
      List.iteri (fun i (_, t) -> if i > 0 then eat ','; l := v t :: !l) fs;
      eat ']';
      let arr = Array.of_list (List.rev !l) in
      VList (vals_of_list (List.map (fun i -> arr.(i)) (wire_order fs)))
    | DMap (a, b) ->
      eat '{';
      let l = ref [] in
      if peek () = '}' then incr pos else begin
        let continue = ref true in
        while !continue do
          let k = v a in eat ':'; let x = v b in
          l := (k, x) :: !l;
          if peek () = ',' then incr pos else (eat '}'; continue := false)
        done
      end;
      VMap (kvals_of_list (List.rev !l)) in
  let r = v d in
  if !pos <> n then perr "value: trailing input at %d in %s" !pos (String.sub s 0 (min n 200));
  r

let render_value (d : dty) (x : value) : string =
  let b = Buffer.create 256 in
  let rec go (d : dty) (x : value) : unit =
    match d, x with
    | DPrim TBool, VBool t -> Buffer.add_char b (if t then 't' else 'f')
    | DPrim (TBytes | TStr), VBytes l -> Buffer.add_string b (hex_of_bytes l)
    | DPrim _, VZ z -> Buffer.add_string b (hex_of_z z)
    | DPrim _, VN k -> Buffer.add_string b (hex_of_n k)
    | DOpt _, VNone -> Buffer.add_char b 'N'
    | DOpt t, VSome y -> Buffer.add_char b 'S'; go t y
    | DRes (a, _), VOk y -> Buffer.add_char b 'O'; go a y
    | DRes (_, e), VErr y -> Buffer.add_char b 'E'; go e y
    | DEnum alts, VEnum (ix, y) ->
      let i = int_of_n ix in
      Buffer.add_string b (Printf.sprintf "V%x:" i);
      (match List.assoc_opt i alts with Some t -> go t y | None -> Buffer.add_char b '?')
    | (DArr (_, t) | DSl t), VList l ->
      Buffer.add_char b '[';
      List.iteri (fun i y -> if i > 0 then Buffer.add_char b ','; go t y) (list_of_vals l);
      Buffer.add_char b ']'
    | DSt fs, VList l ->
      (* l is in wire order; print in declaration order *)
      let ord = wire_order fs in
      let wire = Array.of_list (list_of_vals l) in
      let decl = Array.make (List.length fs) None in
      List.iteri (fun w i -> if w < Array.length wire then decl.(i) <- Some wire.(w)) ord;
      Buffer.add_char b '[';
      List.iteri (fun i (_, t) -> if i > 0 then Buffer.add_char b ',';
                   (match decl.(i) with Some y -> go t y | None -> Buffer.add_char b '?')) fs;
      Buffer.add_char b ']'
    | DMap (a, c), VMap kvs ->
      Buffer.add_char b '{';
      List.iteri (fun i (k, y) -> if i > 0 then Buffer.add_char b ',';
                   go a k; Buffer.add_char b ':'; go c y) (list_of_kvals kvs);
      Buffer.add_char b '}'
    | _, _ -> Buffer.add_char b '?' in
  go d x;
  Buffer.contents b

(* ---------------------------------------------------------------- coverage tags *)
let rec ty_kinds (d : dty) (acc : string list) : string list =
  let add s acc = if List.mem s acc then acc else s :: acc in
  match d with
  | DPrim t -> add (match t with
      | TU8 | TU16 | TU32 | TU64 -> "k-ufixed" | TI8 | TI16 | TI32 | TI64 -> "k-ifixed"
      | TUint -> "k-uint" | TInt -> "k-int" | TBig -> "k-big" | TU128 -> "k-u128" | TBool -> "k-bool"
      | TBytes -> "k-bytes" | TStr -> "k-str" | _ -> "k-other") acc
  | DOpt t -> ty_kinds t (add "k-opt" acc)
  | DRes (a, b) -> ty_kinds a (ty_kinds b (add "k-res" acc))
  | DEnum alts -> List.fold_left (fun acc (_, t) -> ty_kinds t acc) (add "k-enum" acc) alts
  | DArr (_, t) -> ty_kinds t (add "k-arr" acc)
  | DSl t -> ty_kinds t (add "k-slice" acc)
  | DMap (a, b) -> ty_kinds a (ty_kinds b (add "k-map" acc))
  | DSt fs ->
    let acc = add (if List.exists (fun (tg, _) -> tg <> None) fs then "k-struct-tagged" else "k-struct") acc in
    List.fold_left (fun acc (_, t) -> ty_kinds t acc) acc fs

let bytes_prefix (l : byte list) (k : int) : byte list =
  let rec go l k = if k <= 0 then [] else match l with [] -> [] | x :: r -> x :: go r (k - 1) in go l k

(* ---------------------------------------------------------------- Gallina terms (vm_compute cross-check) *)
let rec coq_ty (t : ty) : string =
  match t with
  | TU8 -> "TU8" | TU16 -> "TU16" | TU32 -> "TU32" | TU64 -> "TU64"
  | TI8 -> "TI8" | TI16 -> "TI16" | TI32 -> "TI32" | TI64 -> "TI64"
  | TUint -> "TUint" | TInt -> "TInt" | TBig -> "TBig" | TU128 -> "TU128" | TBool -> "TBool"
  | TBytes -> "TBytes" | TStr -> "TStr"
  | TOption a -> "(TOption " ^ coq_ty a ^ ")"
  | TResult (a, b) -> "(TResult " ^ coq_ty a ^ " " ^ coq_ty b ^ ")"
  | TEnum alts -> "(TEnum " ^ coq_tys alts ^ ")"
  | TArray (k, a) -> Printf.sprintf "(TArray %d %s)" (int_of_nat k) (coq_ty a)
  | TSlice a -> "(TSlice " ^ coq_ty a ^ ")"
  | TMap (a, b) -> "(TMap " ^ coq_ty a ^ " " ^ coq_ty b ^ ")"
  | TStruct fs -> "(TStruct " ^ coq_tys fs ^ ")"
and coq_tys (fs : tys) : string =
  match fs with
  | TNil -> "TNil"
  | TCons (tag, t, r) ->
    Printf.sprintf "(TCons %s %s %s)" (match tag with None -> "None" | Some k -> "(Some " ^ coq_n k ^ ")") (coq_ty t) (coq_tys r)

let rec coq_value (v : value) : string =
  match v with
  | VN k -> "(VN " ^ coq_n k ^ ")"
  | VZ z -> "(VZ (" ^ (let s = hex_of_z z in if String.length s > 0 && s.[0] = '-' then "- 0x" ^ String.sub s 1 (String.length s - 1) else "0x" ^ s) ^ ")%Z)"
  | VBool b -> if b then "(VBool true)" else "(VBool false)"
  | VBytes l -> "(VBytes " ^ coq_bytes l ^ ")"
  | VNone -> "VNone"
  | VSome x -> "(VSome " ^ coq_value x ^ ")"
  | VOk x -> "(VOk " ^ coq_value x ^ ")"
  | VErr x -> "(VErr " ^ coq_value x ^ ")"
  | VEnum (i, x) -> "(VEnum " ^ coq_n i ^ " " ^ coq_value x ^ ")"
  | VList l -> "(VList " ^ coq_vals l ^ ")"
  | VMap l -> "(VMap " ^ coq_kvals l ^ ")"
and coq_vals = function
  | VNil -> "VNil"
  | VCons (x, r) -> "(VCons " ^ coq_value x ^ " " ^ coq_vals r ^ ")"
and coq_kvals = function
  | KNil -> "KNil"
  | KCons (k, x, r) -> "(KCons " ^ coq_value k ^ " " ^ coq_value x ^ " " ^ coq_kvals r ^ ")"
