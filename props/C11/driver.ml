(* C11 driver: replays the Go trace (props/C11/harness_test.go) on the extracted model and
   evaluates the property predicate Model.c11_prop (the predicate the C11 theorems are about:
   Marshal's bytes = spec_encode and Unmarshal(Marshal v) = v) on the implementation's observables. *)
open Model
open Vutil
open Scaleuniv

let compact_mode_tag (v : value) : string =
  match v with
  | VN k ->
    let l = List.length (compact_encode k) in
    if l <= 4 then Printf.sprintf "cmode-%d" l else Printf.sprintf "cmode-big%d" (l - 1)
  | _ -> "cmode-na"

let spec_order (fs : (int option * dty) list) : int list =
  let idx = List.mapi (fun i (tg, _) -> (i, tg)) fs in
  let tagged = List.filter (fun (_, tg) -> tg <> None) idx in
  let untagged = List.filter (fun (_, tg) -> tg = None) idx in
  let tagged = List.stable_sort (fun (_, a) (_, b) -> compare a b) tagged in
  List.map fst (tagged @ untagged)

let check inp obs =
  match split_ws inp with
  | ["enc"; ds; vs] ->
    let d = parse_dty ds in
    let t = wire_ty d in
    let v = parse_value d vs in
    let mm = multi_map v in
    let u57 = has_uint57 t v in
    let se = some_enum t v in
    let typed = has_type v t && wf_ty t in
    let enc = encode_go t v in
    let model =
      if mm then "nondet ~"
      else hex_of_bytes enc ^ " " ^
           (match decode_res current t enc with
            | Ok (v', []) -> render_value d v'
            | Ok (_, rest) -> "left:" ^ hex_of_n (n_of_int (List.length rest))
            | Err _ -> "err"
            | Panic -> "panic"
            | OutOfFuel -> "hang") in
    let (ib, irt) = (match split_ws obs with
        | [b; r] ->
          ((if b = "err" || b = "nondet" || b = "panic" then None else Some (bytes_of_hex b)),
           (if r = "err" || r = "~" || r = "panic" || (String.length r >= 5 && String.sub r 0 5 = "left:") then None
            else (try Some (parse_value d r) with Parse _ -> None)))
        | _ -> (None, None)) in
    let prop = c11_prop t v ib irt in
    let finding = if prop then "-" else if mm then "map-order" else if se then "some-enum"
      else if u57 then "uint-5to7" else "-" in
    let tags = String.concat "," (
        ["enc"; (if typed then "well-typed" else "ILL-TYPED")]
        @ ty_kinds d []
        @ (match d with DPrim (TUint | TBig) -> [compact_mode_tag v] | _ -> [])
        @ (if mm then ["multi-map"] else []) @ (if u57 then ["uint57"] else []) @ (if se then ["some-enum"] else [])) in
    { prop_ok = prop; model_eq = (model = obs); nontrivial = (List.length enc >= 2); finding; tags;
      detail = (if prop && model = obs then "" else
                  Printf.sprintf "model=%s spec=%s" (if String.length model > 300 then String.sub model 0 300 else model)
                    (let s = hex_of_bytes (spec_encode t v) in if String.length s > 200 then String.sub s 0 200 else s)) }
  | ["order"; ds] ->
    (match parse_dty ds with
     | DSt fs ->
       let show l = if l = [] then "-" else String.concat "," (List.map (Printf.sprintf "%x") l) in
       let model = show (wire_order fs) in
       let spec = show (spec_order fs) in
       { prop_ok = (obs = spec); model_eq = (obs = model); nontrivial = (List.length fs >= 2); finding = "-";
         tags = "order" ^ (if List.exists (fun (tg, _) -> tg <> None) fs then ",order-tagged" else ",order-untagged");
         detail = (if obs = spec && obs = model then "" else Printf.sprintf "model=%s spec=%s" model spec) }
     | _ -> fail "order: not a struct %s" ds)
  | _ -> fail "C11: bad input %s" inp

let () = run_driver check
