(* C11 driver: replays the Go trace (props/C11/harness_test.go) on the extracted model and
   evaluates the property predicate Model.c11_prop (the predicate the C11 theorems are about:
   Marshal's bytes = spec_encode and Unmarshal(Marshal v) = v) on the implementation's observables. *)
open Model
open Vutil
open Scaleuniv

let compact_mode_tag (v : value) : string =
  match v with
  | VN k ->
    let l = List.length (compact_encode k) in
    if l <= 4 then Printf.sprintf "cmode-%d" l else Printf.sprintf "cmode-big%d" (l - 1)
  | _ -> "cmode-na"

let spec_order (fs : (int option * dty) list) : int list =
  let idx = List.mapi (fun i (tg, _) -> (i, tg)) fs in
  let tagged = List.filter (fun (_, tg) -> tg <> None) idx in
  let untagged = List.filter (fun (_, tg) -> tg = None) idx in
  let tagged = List.stable_sort (fun (_, a) (_, b) -> compare a b) tagged in
  List.map fst (tagged @ untagged)

let check inp obs =
  match split_ws inp with
  | "enc" :: ds :: vs :: dirt ->
    (* dirt (optional third field): the value the Go destination held before the decode; the
       result must not depend on it, so the model ignores it *)
    let dirty = (dirt <> []) in
    let d = parse_dty ds in
    let t = wire_ty d in
    let v = parse_value d vs in
    let mm = multi_map v in
    let u57 = has_uint57 t v in
    let se = some_enum t v in
    let typed = has_type v t && wf_ty t in
    let enc = encode_go t v in
    let rt_model = (match decode_res current t enc with
        | Ok (v', []) -> render_value d v'
        | Ok (_, rest) -> "left:" ^ hex_of_n (n_of_int (List.length rest))
        | Err _ -> "err"
        | Panic -> "panic"
        | OutOfFuel -> "hang") in
    (* a multi-entry map is emitted in map iteration order: the bytes are not a function of the
       value (nondet), the decoded value is *)
    let model = (if mm then "nondet" else hex_of_bytes enc) ^ " " ^ rt_model in
    let (ib, irt) = (match split_ws obs with
        | [b; r] ->
          ((if b = "err" || b = "nondet" || b = "panic" then None else Some (bytes_of_hex b)),
           (if r = "err" || r = "~" || r = "panic" || (String.length r >= 5 && String.sub r 0 5 = "left:") then None
            else (try Some (parse_value d r) with Parse _ -> None)))
        | _ -> (None, None)) in
    let prop = c11_prop t v ib irt in
    let rt_ok = (match irt with Some v' -> value_eqb v' v | None -> false) in
    (* map-order excuses the bytes only: the round trip of a multi-entry map must still hold
       (unless one of the other two findings applies to the value) *)
    let finding = if prop then "-" else if se then "some-enum" else if u57 then "uint-5to7"
      else if mm && rt_ok then "map-order" else "-" in
    (* with several Marshal outputs the 200 calls may agree by chance: both answers are right *)
    let model_eq = (model = obs) ||
                   (mm && (match split_ws obs with [b; r] -> b <> "nondet" && b <> "err" && r = rt_model | _ -> false)) in
    let tags = String.concat "," (
        ["enc"; (if typed then "well-typed" else "ILL-TYPED")]
        @ ty_kinds d []
        @ (match d with DPrim (TUint | TBig) -> [compact_mode_tag v] | _ -> [])
        @ (if dirty then ["dirty-dst"] else [])
        @ (if mm then ["multi-map"] else []) @ (if u57 then ["uint57"] else []) @ (if se then ["some-enum"] else [])) in
    { prop_ok = prop; model_eq; nontrivial = (List.length enc >= 2); finding; tags;
      detail = (if prop && model_eq then "" else
                  Printf.sprintf "model=%s spec=%s" (if String.length model > 300 then String.sub model 0 300 else model)
                    (let s = hex_of_bytes (spec_encode t v) in if String.length s > 200 then String.sub s 0 200 else s)) }
  | ["order"; ds] ->
    (match parse_dty ds with
     | DSt fs ->
       let show l = if l = [] then "-" else String.concat "," (List.map (Printf.sprintf "%x") l) in
       let model = show (wire_order fs) in
       let spec = show (spec_order fs) in
       { prop_ok = (obs = spec); model_eq = (obs = model); nontrivial = (List.length fs >= 2); finding = "-";
         tags = "order" ^ (if List.exists (fun (tg, _) -> tg <> None) fs then ",order-tagged" else ",order-untagged");
         detail = (if obs = spec && obs = model then "" else Printf.sprintf "model=%s spec=%s" model spec) }
     | _ -> fail "order: not a struct %s" ds)
  | _ -> fail "C11: bad input %s" inp

(* vm_compute cross-check: Marshal's bytes and the round trip recomputed inside Coq (small values,
   no multi-entry maps) *)
let coq inp obs =
  match split_ws inp with
  | "enc" :: ds :: vs :: _ ->
    let d = parse_dty ds in
    let t = wire_ty d in
    let v = parse_value d vs in
    if multi_map v || String.length vs > 300 then None else
    (match split_ws obs with
     | [b; r] when b <> "err" && b <> "nondet" && b <> "panic" ->
       let enc_ok = Printf.sprintf "bytes_eqb (encode_go %s %s) %s" (coq_ty t) (coq_value v) (coq_bytes (bytes_of_hex b)) in
       let rt = (if r = "err" then Some "None"
                 else if String.length r >= 5 && String.sub r 0 5 = "left:" then None
                 else (try Some (Printf.sprintf "(Some (%s, 0%%nat))" (coq_value (parse_value d r))) with Parse _ -> None)) in
       (match rt with
        | Some w -> Some (Printf.sprintf "%s && dec_matches (decode_res current %s (encode_go %s %s)) %s"
                            enc_ok (coq_ty t) (coq_ty t) (coq_value v) w)
        | None -> Some enc_ok)
     | _ -> None)
  | _ -> None

let () = run_driver ~coq check
