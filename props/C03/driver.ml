(* C03 driver: replays a fork history on the extracted heap model (repaired code, fx = true),
   compares Hash()/Entries() of every live handle after every step, and evaluates the isolation
   predicate of C03_isolation on the implementation's own observables:
   a step that mutates handle i leaves the observation of every other handle unchanged; Snapshot,
   SetVersion, WriteDirty leave every observation unchanged; a new snapshot shows what its source
   shows; nothing panics (except SetVersion regressing the version, by design).
   The predicate applies to histories satisfying frozen_parents (the theorem's hypothesis). *)
open Model
open Vutil

let memo : (string, byte list) Hashtbl.t = Hashtbl.create 4096
let hh (b : byte list) : byte list =
  let k = string_of_bytes b in
  match Hashtbl.find_opt memo k with
  | Some v -> v
  | None -> let v = blake2b_256 b in Hashtbl.add memo k v; v

let parse_step tok : xstep =
  let body = String.sub tok 1 (String.length tok - 1) in
  let f = String.split_on_char ':' body in
  let idx s = nat_of_int (int_of_string ("0x" ^ s)) in
  match tok.[0], f with
  | 's', [i] -> Core (Snap (idx i))
  | 'p', [i; k; v] -> Core (Put (idx i, bytes_of_hex k, bytes_of_hex v))
  | 'd', [i; k] -> Core (Del (idx i, bytes_of_hex k))
  | 'c', [i; p] -> Core (Clear (idx i, bytes_of_hex p))
  | 'l', [i; p; l] -> ClearLimit (idx i, bytes_of_hex p, n_of_hex l)
  | 'v', [i; v] -> Core (SetVer (idx i, v = "1"))
  | 'w', [i] -> Core (Commit (idx i))
  | _ -> fail "C03: bad step %s" tok

let obs_string (hash : byte list) (ents : (byte list * byte list) list) : string =
  (* Entries() is a Go map: a key visited twice (possible only when a parent was mutated after a
     snapshot) appears once *)
  let ents = List.sort_uniq compare (List.map (fun (k, v) -> (string_of_bytes k, v)) ents) in
  let b = Buffer.create 256 in
  Buffer.add_string b (hex_of_bytes hash);
  Buffer.add_char b '#';
  if ents = [] then Buffer.add_char b '.';
  List.iteri (fun i (k, v) ->
    if i > 0 then Buffer.add_char b ',';
    Buffer.add_string b (hex_of_bytes (bytes_of_string k));
    Buffer.add_char b ':';
    Buffer.add_string b (hex_of_bytes v)) ents;
  Buffer.contents b

(* observe every handle (Hash then Entries), threading the cache writes of Hash *)
let observe fg (st : state) : state * string list =
  let m = ref st.s_mem in
  let obs = List.map (fun hd ->
    let (m1, hv) = hash_handle hh !m hd in
    m := m1;
    obs_string hv (entries_handle fg !m hd)) st.s_hs in
  ({ st with s_mem = !m }, obs)

let kind_tag = function
  | Core (Snap _) -> "snapshot" | Core (Put _) -> "put" | Core (Del _) -> "delete" | Core (Clear _) -> "clearprefix"
  | Core (SetVer (_, true)) -> "setversion-v1" | Core (SetVer (_, false)) -> "setversion-v0"
  | Core (Commit _) -> "writedirty" | Core (HashOp _) -> "hash"
  | ClearLimit _ -> "clearprefixlimit"

let core_steps steps = List.filter_map (function Core s -> Some s | ClearLimit (i, p, _) -> Some (Clear (i, p))) steps

(* The isolation predicate on the implementation's observables.
   kinds.(k) = (target handle or -1, snapshot source or -1, printable token) for step k. *)
let isolation_pred ~frozen ~model_panic_at (kinds : (int * int * string) array) (obs : string) : string =
  let recs = Array.of_list (split_ws obs) in
  let why = ref "" in
  let fail_with s = if !why = "" then why := s in
  let cur : string array ref = ref [||] in
  (* `state` harness: after `@`, the view of the trie cached under each stored root (`-`: none).
     A root's view never changes, and it is the view the stored handle had at its StoreTrie. *)
  let rcur : (int, string) Hashtbl.t = Hashtbl.create 8 in
  let pending : int list ref = ref [] in
  let split_roots l =
    let rec f acc = function
      | [] -> (List.rev acc, [])
      | "@" :: r -> (List.rev acc, r)
      | x :: r -> f (x :: acc) r in
    f [] l in
  let check_roots k tok ro =
    List.iteri (fun j x ->
      if x = "-" || x = "=" then ()
      else match Hashtbl.find_opt rcur j with
        | None -> Hashtbl.replace rcur j x; pending := j :: !pending
        | Some y ->
          fail_with (Printf.sprintf "step %d (%s) changed the trie cached under stored root %d: %s -> %s" k tok j y x)) ro in
  let new_root k tok =
    (if String.length tok > 1 && tok.[0] = 'S' then begin
       let idx = int_of_string ("0x" ^ String.sub tok 1 (String.length tok - 1)) in
       List.iter (fun j ->
         if idx < Array.length !cur && Hashtbl.find rcur j <> (!cur).(idx) then
           fail_with (Printf.sprintf "step %d (%s): trie cached under the new root differs from the stored handle" k tok)) !pending
     end else if !pending <> [] then
       fail_with (Printf.sprintf "step %d (%s): a stored root appeared without StoreTrie" k tok));
    pending := [] in
  (if Array.length recs = 0 then fail_with "no-observation" else begin
    (match String.split_on_char '/' recs.(0) with
     | "init" :: o -> cur := Array.of_list (fst (split_roots o))
     | _ -> fail_with "init-shape");
    let nsteps = Array.length kinds in
    Array.iteri (fun k (target, snapsrc, tok) ->
      if !why = "" && k + 1 < Array.length recs then begin
        let f = String.split_on_char '/' recs.(k + 1) in
        match f with
        | ["panic"] | ["err"] | ["bad"] ->
          if not (List.hd f = "panic" && model_panic_at = k) then
            fail_with (Printf.sprintf "step %d (%s): %s" k tok (List.hd f))
        | _ :: o0 ->
          let o, ro = split_roots o0 in
          check_roots k tok ro;
          if List.mem "panic" o then fail_with (Printf.sprintf "step %d (%s): panic while observing" k tok)
          else begin
            let o = Array.of_list o in
            let nold = Array.length !cur in
            if frozen then
              Array.iteri (fun j x ->
                if j < nold && j <> target && x <> "=" then
                  fail_with (Printf.sprintf "step %d (%s) changed handle %d: %s -> %s" k tok j (!cur).(j) x)) o;
            let next = Array.mapi (fun j x -> if x = "=" && j < nold then (!cur).(j) else x) o in
            (if snapsrc >= 0 then begin
               if Array.length next <> nold + 1 then fail_with (Printf.sprintf "step %d: snapshot did not add a handle" k)
               else if snapsrc < nold && next.(nold) <> next.(snapsrc) then
                 fail_with (Printf.sprintf "step %d (%s): new snapshot differs from its source: %s vs %s" k tok next.(nold) next.(snapsrc))
             end else if Array.length next <> nold then fail_with (Printf.sprintf "step %d: handle count changed" k));
            cur := next;
            new_root k tok
          end
        | [] -> fail_with "empty-record"
      end) kinds;
    if !why = "" && Array.length recs < nsteps + 1 then begin
      let last = recs.(Array.length recs - 1) in
      let lf = String.split_on_char '/' last in
      if not (List.mem "panic" lf || List.mem "err" lf || List.mem "bad" lf) then fail_with "truncated-observation"
    end
  end);
  !why

let first_diff model obs =
  let a = Array.of_list (split_ws model) and b = Array.of_list (split_ws obs) in
  let n = min (Array.length a) (Array.length b) in
  let i = ref 0 in
  while !i < n && a.(!i) = b.(!i) do incr i done;
  Printf.sprintf "model differs at record %d: model=%s impl=%s" !i
    (if !i < Array.length a then a.(!i) else "<none>")
    (if !i < Array.length b then b.(!i) else "<none>")

let split_probe obs0 =
  match String.index_opt obs0 ' ' with
  | Some i when String.length obs0 >= 8 && String.sub obs0 0 6 = "probe:" ->
    (obs0.[6] = '1', obs0.[7] = '1', String.sub obs0 (i + 1) (String.length obs0 - i - 1))
  | _ -> fail "C03: observation without probe: %s" (String.sub obs0 0 (min 40 (String.length obs0)))

let render prev cur =
  List.mapi (fun j o -> match List.nth_opt prev j with Some p when p = o -> "=" | _ -> o) cur

(* ---------- harness "main": fork histories on pkg/trie/inmemory ---------- *)
let check_main inp obs0 =
  let fd, fg, obs = split_probe obs0 in
  let toks = split_ws inp in
  let toks = (match toks with "U" :: r -> r | l -> l) in
  let steps = List.map parse_step toks in
  let frozen = frozen_parents (core_steps steps) in
  let buf = Buffer.create 1024 in
  let st0, o0 = observe fg init_state in
  Buffer.add_string buf (String.concat "/" ("init" :: o0));
  let model_panic_at = ref (-1) in
  let rec go st prev k = function
    | [] -> ()
    | s :: r ->
      let ((st1, res), extra) = xexec hh true fd st s in
      Buffer.add_char buf ' ';
      (match res with
       | ROk ->
         let st2, cur = observe fg st1 in
         let rs = (match extra with
           | Some (d, a) -> "ok:" ^ hex_of_n d ^ ":" ^ (if a then "1" else "0")
           | None -> "ok") in
         Buffer.add_string buf (String.concat "/" (rs :: render prev cur));
         go st2 cur (k + 1) r
       | RPanic -> model_panic_at := k; Buffer.add_string buf "panic"
       | RBad -> Buffer.add_string buf "bad")
  in
  go st0 o0 0 steps;
  let model = Buffer.contents buf in
  let kinds = Array.of_list (List.map2 (fun s tok ->
    ((match xmutated_handle s with Some i -> int_of_nat i | None -> -1),
     (match s with Core (Snap i) -> int_of_nat i | _ -> -1), tok)) steps toks) in
  let why = isolation_pred ~frozen ~model_panic_at:!model_panic_at kinds obs in
  let prop_ok = (why = "") in
  let model_eq = (model = obs) in
  let nsnap = List.length (List.filter (function Core (Snap _) -> true | _ -> false) steps) in
  let mut_after_snap =
    let rec f seen = function
      | [] -> false
      | Core (Snap _) :: r -> f true r
      | s :: r -> (seen && xmutated_handle s <> None) || f seen r in
    f false steps in
  let kinds_t = List.sort_uniq compare (List.map kind_tag steps) in
  let tags = String.concat "," (
    kinds_t @ [Printf.sprintf "handles-%d" (1 + nsnap)]
    @ (if frozen then ["frozen-parents"] else ["parent-mutated"])
    @ [Printf.sprintf "tree-delete-fix-%b-get-fix-%b" fd fg]
    @ (if !model_panic_at >= 0 then ["version-regress-panic"] else [])) in
  { prop_ok; model_eq; nontrivial = (nsnap >= 1 && mut_after_snap); finding = "-"; tags;
    detail = (if prop_ok && model_eq then "" else if not prop_ok then "isolation: " ^ why else first_diff model obs) }

(* ---------- harness "state": StoreTrie / TrieState(root) of dot/state ---------- *)
let check_state inp obs0 =
  let fd, fg, obs = split_probe obs0 in
  let toks = (match split_ws inp with "state" :: r -> r | _ -> fail "C03: bad state input") in
  let buf = Buffer.create 1024 in
  let st0, o0 = observe fg init_state in
  Buffer.add_string buf (String.concat "/" ("init" :: o0 @ ["@"]));
  let model_panic_at = ref (-1) in
  let tries : (string, int) Hashtbl.t = Hashtbl.create 16 in      (* database: root -> first handle stored under it *)
  let roots = ref [] in                                           (* the distinct stored roots, latest first *)
  (* the in-memory Tries map of the current session: root -> (handle with that trie's contents,
     loaded from the database?).  LoadFromDB builds the trie with NewTrie(nil, db): version V0;
     the reload itself (pkg/trie/inmemory Load, property C04/C05) is taken as a view-equal copy. *)
  let cache : (string, int * bool) Hashtbl.t = Hashtbl.create 16 in
  let prev_r : (string, string) Hashtbl.t = Hashtbl.create 16 in
  let render_roots cur =
    "@" :: List.map (fun root ->
      match Hashtbl.find_opt cache root with
      | None -> "-"
      | Some (j, _) ->
        let o = List.nth cur j in
        if Hashtbl.find_opt prev_r root = Some o then "=" else (Hashtbl.replace prev_r root o; o)) (List.rev !roots) in
  let stored : (int, string) Hashtbl.t = Hashtbl.create 16 in     (* handle -> root at its last StoreTrie *)
  let core = ref [] in                                            (* the model steps performed, in order *)
  let kinds = ref [] in
  let run_core st (l : step list) =
    List.fold_left (fun (st, res) s ->
      if res <> ROk then (st, res) else begin
        core := s :: !core;
        let (st1, r) = exec hh true fd st s in (st1, r) end) (st, ROk) l in
  let root_of st k =
    let hd = List.nth st.s_hs k in
    let (_, hv) = hash_handle hh st.s_mem hd in hex_of_bytes hv in
  let rec go st prev k = function
    | [] -> ()
    | tok :: r ->
      let body = String.sub tok 1 (String.length tok - 1) in
      let f = String.split_on_char ':' body in
      let idx = int_of_string ("0x" ^ List.hd f) in
      let nidx = nat_of_int idx in
      let v0_new = ref false in
      let (steps, target, snapsrc) : step list * int * int =
        (match tok.[0], f with
         | 'p', [_; ky; v] -> ([Put (nidx, bytes_of_hex ky, bytes_of_hex v)], idx, -1)
         | 'd', [_; ky] -> ([Del (nidx, bytes_of_hex ky)], idx, -1)
         | 'c', [_; p] -> ([Clear (nidx, bytes_of_hex p)], idx, -1)
         | 'v', [_; v] -> ([SetVer (nidx, v = "1")], -1, -1)
         | 'S', [_] ->
           let root = root_of st idx in
           if not (Hashtbl.mem tries root) then begin Hashtbl.add tries root idx; roots := root :: !roots end;
           if not (Hashtbl.mem cache root) then Hashtbl.add cache root (idx, false);
           Hashtbl.replace stored idx root;
           ([HashOp nidx; Commit nidx], -1, -1)
         | 'T', [_] ->
           let root = (try Hashtbl.find stored idx with Not_found -> fail "C03 state: T of an unstored handle") in
           let (j, loaded) =
             (match Hashtbl.find_opt cache root with
              | Some c -> c
              | None -> let j = Hashtbl.find tries root in Hashtbl.add cache root (j, true); (j, true)) in
           v0_new := loaded;
           (* TrieState panics when the cached trie no longer has the expected root *)
           if root_of st j <> root then ([], -2, -1)
           else ([HashOp (nat_of_int j); Snap (nat_of_int j)], -1, j)
         | 'R', [_] -> Hashtbl.reset cache; ([], -1, -1)
         | 'X', [_] ->
           let root = (try Hashtbl.find stored idx with Not_found -> fail "C03 state: X of an unstored handle") in
           Hashtbl.remove cache root; ([], -1, -1)
         | _ -> fail "C03 state: bad step %s" tok) in
      kinds := (target, snapsrc, tok) :: !kinds;
      Buffer.add_char buf ' ';
      if target = -2 then begin model_panic_at := k; Buffer.add_string buf "panic" end
      else begin
        let (st1, res) = run_core st steps in
        (match res with
         | ROk ->
           let st1 =
             if !v0_new then   (* the snapshot of a trie rebuilt from the database is a V0 trie *)
               { st1 with s_hs = List.mapi (fun i hd ->
                   if i = List.length st1.s_hs - 1 then { hd with h_v1 = false } else hd) st1.s_hs }
             else st1 in
           let st2, cur = observe fg st1 in
           Buffer.add_string buf (String.concat "/" ("ok" :: render prev cur @ render_roots cur));
           go st2 cur (k + 1) r
         | RPanic -> model_panic_at := k; Buffer.add_string buf "panic"
         | RBad -> Buffer.add_string buf "bad")
      end
  in
  go st0 o0 0 toks;
  let model = Buffer.contents buf in
  let frozen = frozen_parents (List.rev !core) in
  (* in this harness a panic is never expected: TrieState(root) must find the cached trie intact *)
  let why = isolation_pred ~frozen ~model_panic_at:(-1) (Array.of_list (List.rev !kinds)) obs in
  let prop_ok = (why = "") in
  let model_eq = (model = obs) in
  let nT = List.length (List.filter (fun t -> t.[0] = 'T') toks) in
  let reloads =
    let rec f dropped = function
      | [] -> false
      | t :: r -> if t.[0] = 'R' || t.[0] = 'X' then f true r else (dropped && t.[0] = 'T') || f dropped r in
    f false toks in
  let tags = String.concat "," (
    ["state-harness"; Printf.sprintf "state-blocks-%d" nT]
    @ (if reloads then ["state-reload-from-db"] else [])
    @ (if frozen then ["frozen-parents"] else ["parent-mutated"])
    @ (if Hashtbl.length tries < Hashtbl.length stored then ["state-same-root-stored-twice"] else [])) in
  { prop_ok; model_eq; nontrivial = (nT >= 1); finding = "-"; tags;
    detail = (if prop_ok && model_eq then "" else if not prop_ok then "isolation: " ^ why else first_diff model obs) }

let check inp obs =
  if String.length inp >= 5 && String.sub inp 0 5 = "state" then check_state inp obs else check_main inp obs

let () = run_driver check
