(* C03 driver: replays a fork history on the extracted heap model (repaired code, fx = true),
   compares Hash()/Entries() of every live handle after every step, and evaluates the isolation
   predicate of C03_isolation on the implementation's own observables:
   a step that mutates handle i leaves the observation of every other handle unchanged; Snapshot,
   SetVersion, WriteDirty leave every observation unchanged; a new snapshot shows what its source
   shows; nothing panics (except SetVersion regressing the version, by design).
   The predicate applies to histories satisfying frozen_parents (the theorem's hypothesis). *)
open Model
open Vutil

let memo : (string, byte list) Hashtbl.t = Hashtbl.create 4096
let hh (b : byte list) : byte list =
  let k = string_of_bytes b in
  match Hashtbl.find_opt memo k with
  | Some v -> v
  | None -> let v = blake2b_256 b in Hashtbl.add memo k v; v

let parse_step tok : xstep =
  let body = String.sub tok 1 (String.length tok - 1) in
  let f = String.split_on_char ':' body in
  let idx s = nat_of_int (int_of_string ("0x" ^ s)) in
  match tok.[0], f with
  | 's', [i] -> Core (Snap (idx i))
  | 'p', [i; k; v] -> Core (Put (idx i, bytes_of_hex k, bytes_of_hex v))
  | 'd', [i; k] -> Core (Del (idx i, bytes_of_hex k))
  | 'c', [i; p] -> Core (Clear (idx i, bytes_of_hex p))
  | 'l', [i; p; l] -> ClearLimit (idx i, bytes_of_hex p, n_of_hex l)
  | 'v', [i; v] -> Core (SetVer (idx i, v = "1"))
  | 'w', [i] -> Core (Commit (idx i))
  | _ -> fail "C03: bad step %s" tok

let obs_string (hash : byte list) (ents : (byte list * byte list) list) : string =
  (* Entries() is a Go map: a key visited twice (possible only when a parent was mutated after a
     snapshot) appears once *)
  let ents = List.sort_uniq compare (List.map (fun (k, v) -> (string_of_bytes k, v)) ents) in
  let b = Buffer.create 256 in
  Buffer.add_string b (hex_of_bytes hash);
  Buffer.add_char b '#';
  if ents = [] then Buffer.add_char b '.';
  List.iteri (fun i (k, v) ->
    if i > 0 then Buffer.add_char b ',';
    Buffer.add_string b (hex_of_bytes (bytes_of_string k));
    Buffer.add_char b ':';
    Buffer.add_string b (hex_of_bytes v)) ents;
  Buffer.contents b

(* observe every handle (Hash then Entries), threading the cache writes of Hash *)
let observe fg (st : state) : state * string list =
  let m = ref st.s_mem in
  let obs = List.map (fun hd ->
    let (m1, hv) = hash_handle hh !m hd in
    m := m1;
    obs_string hv (entries_handle fg !m hd)) st.s_hs in
  ({ st with s_mem = !m }, obs)

let kind_tag = function
  | Core (Snap _) -> "snapshot" | Core (Put _) -> "put" | Core (Del _) -> "delete" | Core (Clear _) -> "clearprefix"
  | Core (SetVer (_, true)) -> "setversion-v1" | Core (SetVer (_, false)) -> "setversion-v0"
  | Core (Commit _) -> "writedirty" | Core (HashOp _) -> "hash"
  | ClearLimit _ -> "clearprefixlimit"

let core_steps steps = List.filter_map (function Core s -> Some s | ClearLimit (i, p, _) -> Some (Clear (i, p))) steps


(* ---------- coverage buckets: which branch of the model a mutating step takes ----------
   Re-walks the model heap along the key (navigation only, no writes) and names the case of
   insert / insertInLeaf / insertInBranch, deleteLeaf / deleteBranch, clearPrefixAtNode,
   clearPrefixLimit* / deleteNodesLimit at which the operation lands, whether the landing node
   belongs to the handle's generation (written in place: "own") or to an older one (copied:
   "cow"), and the outcome of handleDeletion.  Only used for the tag histogram. *)
let ilen l = int_of_nat (length l)
let own_tag g (c : cell) = if c.c_gen = g then "own" else "cow"
let hd_tag (c : cell) (kids : addr option list) (sv : value option) =
  match int_of_nat (count_kids kids), sv with
  | 0, Some _ -> "hd-to-leaf" | 1, None -> "hd-merge-child" | 0, None -> "hd-empty-branch" | _ -> "hd-keep"

let rec put_cov hp g v1 (p : addr option) (k : key) (v : value) depth : string list =
  match p with
  | None -> ["put:new-leaf-at-nil-root"]
  | Some a ->
    (match hp a with
     | None -> ["put:dangling"]
     | Some c ->
       let o = own_tag g c in
       let same = (eqb c.c_mbh (must_hash v1 v)) && sv_eqb c.c_sv v in
       if not c.c_isb then begin
         if key_eqb c.c_pk k then [if same then "put:leaf-same-value-noop" else "put:leaf-replace-" ^ o
                                   ^ (if sv_eqb c.c_sv v then "-mbh-only" else "")]
         else
           let n = int_of_nat (cpl k c.c_pk) in
           if ilen k = n then ["put:leaf-key-is-prefix-of-leaf-" ^ o]
           else if ilen c.c_pk = n then ["put:leaf-is-prefix-of-key"]
           else ["put:leaf-diverge-" ^ o]
       end else begin
         if key_eqb k c.c_pk then [if same then "put:branch-same-value-noop" else "put:branch-value-" ^ o
                                   ^ (if sv_eqb c.c_sv v then "-mbh-only" else "")]
         else if is_prefix c.c_pk k then begin
           let n = cpl k c.c_pk in
           let idx = nth n k O in
           match nth idx c.c_kids None with
           | None -> ["put:branch-new-child-" ^ o]
           | Some ch ->
             let sub = put_cov hp g v1 (Some ch) (skipn (S n) k) v (depth + 1) in
             if List.exists (fun t -> String.length t > 5 && String.sub t (String.length t - 5) 5 = "-noop") sub then sub
             else ("put:branch-descend-" ^ o) :: sub
         end else
           [(if ilen k <= int_of_nat (cpl k c.c_pk) then "put:branch-split-value-" else "put:branch-split-leaf-") ^ o]
       end)

let rec del_cov hp g fd (p : addr option) (k : key) : string list =
  match p with
  | None -> ["del:nil"]
  | Some a ->
    (match hp a with
     | None -> ["del:dangling"]
     | Some c ->
       let o = own_tag g c in
       if not c.c_isb then
         (if ilen k > 0 && not (key_eqb k c.c_pk) then ["del:leaf-miss"] else ["del:leaf-" ^ o])
       else if ilen k = 0 || key_eqb c.c_pk k then
         ["del:branch-value-" ^ o; "del:" ^ hd_tag c c.c_kids None]
       else begin
         let n = cpl c.c_pk k in
         if int_of_nat n < ilen c.c_pk then ["del:branch-diverge-miss"]
         else
           let idx = nth n k O in
           let ch = nth idx c.c_kids None in
           if fd && ilen (skipn (S n) k) = 0 && kid_pk_nonempty hp ch then ["del:exhausted-key-miss"]
           else
             let sub = del_cov hp g fd ch (skipn (S n) k) in
             if List.exists (fun t -> List.mem t ["del:nil"; "del:leaf-miss"; "del:branch-diverge-miss"; "del:exhausted-key-miss"]) sub
             then sub
             else begin
               (* the child slot after the deletion: gone only when a leaf (or everything) was removed *)
               let gone = List.mem "del:leaf-own" sub || List.mem "del:leaf-cow" sub in
               let kids' = if gone && not (List.exists (fun t -> t = "del:branch-descend-own" || t = "del:branch-descend-cow") sub)
                 then set_nth idx None c.c_kids else c.c_kids in
               ("del:branch-descend-" ^ o) :: ("del:" ^ hd_tag c kids' c.c_sv) :: sub
             end
       end)

let rec clear_cov hp g (p : addr option) (prefix : key) : string list =
  match p with
  | None -> ["clear:nil"]
  | Some a ->
    (match hp a with
     | None -> ["clear:dangling"]
     | Some c ->
       let o = own_tag g c in
       let pk = c.c_pk in
       if is_prefix prefix pk then [if c.c_isb then "clear:whole-branch" else "clear:whole-leaf"]
       else if not c.c_isb then ["clear:leaf-miss"]
       else if ilen prefix = ilen pk + 1 && is_prefix (removelast prefix) pk then begin
         let idx = nth (length pk) prefix O in
         match nth idx c.c_kids None with
         | None -> ["clear:child-slot-empty"]
         | Some _ -> ["clear:child-slot-" ^ o; "clear:" ^ hd_tag c (set_nth idx None c.c_kids) c.c_sv]
       end
       else if ilen prefix <= ilen pk || int_of_nat (cpl pk prefix) < ilen pk then ["clear:branch-miss"]
       else begin
         let idx = nth (length pk) prefix O in
         let sub = clear_cov hp g (nth idx c.c_kids None) (skipn (S (length pk)) prefix) in
         if List.exists (fun t -> List.mem t ["clear:nil"; "clear:leaf-miss"; "clear:child-slot-empty"; "clear:branch-miss"]) sub then sub
         else ("clear:descend-" ^ o) :: sub
       end)

let rec limit_cov hp g (p : addr option) (prefix : key) : string list =
  match p with
  | None -> ["limit:nil"]
  | Some a ->
    (match hp a with
     | None -> ["limit:dangling"]
     | Some c ->
       let o = own_tag g c in
       let pk = c.c_pk in
       if not c.c_isb then [if is_prefix prefix pk then "limit:leaf" else "limit:leaf-miss"]
       else if is_prefix prefix pk then ["limit:delete-nodes-at-branch-" ^ o]
       else if ilen prefix = ilen pk + 1 && is_prefix (removelast prefix) pk then begin
         let idx = nth (length pk) prefix O in
         match nth idx c.c_kids None with
         | None -> ["limit:child-slot-empty"]
         | Some ch -> ["limit:child-slot-" ^ o ^ (match hp ch with Some cc when cc.c_isb -> "-branch" | _ -> "-leaf")]
       end
       else if ilen prefix <= ilen pk || int_of_nat (cpl pk prefix) < ilen pk then ["limit:branch-miss"]
       else begin
         let idx = nth (length pk) prefix O in
         ("limit:descend-" ^ o) :: limit_cov hp g (nth idx c.c_kids None) (skipn (S (length pk)) prefix)
       end)

let branch_cov fd (st : state) (s : xstep) : string list =
  let hp = st.s_mem.hp in
  let h i = nth_error st.s_hs i in
  match s with
  | Core (Put (i, k, v)) ->
    (match h i with Some hd -> put_cov hp hd.h_gen hd.h_v1 hd.h_root (key_le_to_nibbles k) v 0 | None -> [])
  | Core (Del (i, k)) ->
    (match h i with Some hd -> del_cov hp hd.h_gen fd hd.h_root (key_le_to_nibbles k) | None -> [])
  | Core (Clear (i, p)) ->
    (match h i with
     | Some hd -> if p = [] then ["clear:everything"] else clear_cov hp hd.h_gen hd.h_root (trim_zero_suffix (key_le_to_nibbles p))
     | None -> [])
  | ClearLimit (i, p, l) ->
    (match h i with
     | Some hd -> if l = n_of_int 0 then ["limit:zero"] else limit_cov hp hd.h_gen hd.h_root (trim_zero_suffix (key_le_to_nibbles p))
     | None -> [])
  | _ -> []

(* The isolation predicate on the implementation's observables.
   kinds.(k) = (target handle or -1, snapshot source or -1, printable token) for step k. *)
let isolation_pred ~frozen ~model_panic_at (kinds : (int * int * string) array) (obs : string) : string =
  let recs = Array.of_list (split_ws obs) in
  let why = ref "" in
  let fail_with s = if !why = "" then why := s in
  let cur : string array ref = ref [||] in
  (* `state` harness: after `@`, the view of the trie cached under each stored root (`-`: none).
     A root's view never changes, and it is the view the stored handle had at its StoreTrie. *)
  let rcur : (int, string) Hashtbl.t = Hashtbl.create 8 in
  let pending : int list ref = ref [] in
  let split_roots l =
    let rec f acc = function
      | [] -> (List.rev acc, [])
      | "@" :: r -> (List.rev acc, r)
      | x :: r -> f (x :: acc) r in
    f [] l in
  let check_roots k tok ro =
    List.iteri (fun j x ->
      if x = "-" || x = "=" then ()
      else match Hashtbl.find_opt rcur j with
        | None -> Hashtbl.replace rcur j x; pending := j :: !pending
        | Some y ->
          fail_with (Printf.sprintf "step %d (%s) changed the trie cached under stored root %d: %s -> %s" k tok j y x)) ro in
  let new_root k tok =
    (if String.length tok > 1 && tok.[0] = 'S' then begin
       let idx = int_of_string ("0x" ^ String.sub tok 1 (String.length tok - 1)) in
       List.iter (fun j ->
         if idx < Array.length !cur && Hashtbl.find rcur j <> (!cur).(idx) then
           fail_with (Printf.sprintf "step %d (%s): trie cached under the new root differs from the stored handle" k tok)) !pending
     end else if !pending <> [] then
       fail_with (Printf.sprintf "step %d (%s): a stored root appeared without StoreTrie" k tok));
    pending := [] in
  (if Array.length recs = 0 then fail_with "no-observation" else begin
    (match String.split_on_char '/' recs.(0) with
     | "init" :: o -> cur := Array.of_list (fst (split_roots o))
     | _ -> fail_with "init-shape");
    let nsteps = Array.length kinds in
    Array.iteri (fun k (target, snapsrc, tok) ->
      if !why = "" && k + 1 < Array.length recs then begin
        let f = String.split_on_char '/' recs.(k + 1) in
        match f with
        | ["panic"] | ["err"] | ["bad"] ->
          if not (List.hd f = "panic" && model_panic_at = k) then
            fail_with (Printf.sprintf "step %d (%s): %s" k tok (List.hd f))
        | _ :: o0 ->
          let o, ro = split_roots o0 in
          check_roots k tok ro;
          if List.mem "panic" o then fail_with (Printf.sprintf "step %d (%s): panic while observing" k tok)
          else begin
            let o = Array.of_list o in
            let nold = Array.length !cur in
            if frozen then
              Array.iteri (fun j x ->
                if j < nold && j <> target && x <> "=" then
                  fail_with (Printf.sprintf "step %d (%s) changed handle %d: %s -> %s" k tok j (!cur).(j) x)) o;
            let next = Array.mapi (fun j x -> if x = "=" && j < nold then (!cur).(j) else x) o in
            (if snapsrc >= 0 then begin
               if Array.length next <> nold + 1 then fail_with (Printf.sprintf "step %d: snapshot did not add a handle" k)
               else if snapsrc < nold && next.(nold) <> next.(snapsrc) then
                 fail_with (Printf.sprintf "step %d (%s): new snapshot differs from its source: %s vs %s" k tok next.(nold) next.(snapsrc))
             end else if Array.length next <> nold then fail_with (Printf.sprintf "step %d: handle count changed" k));
            cur := next;
            new_root k tok
          end
        | [] -> fail_with "empty-record"
      end) kinds;
    if !why = "" && Array.length recs < nsteps + 1 then begin
      let last = recs.(Array.length recs - 1) in
      let lf = String.split_on_char '/' last in
      if not (List.mem "panic" lf || List.mem "err" lf || List.mem "bad" lf) then fail_with "truncated-observation"
    end
  end);
  !why

let first_diff model obs =
  let a = Array.of_list (split_ws model) and b = Array.of_list (split_ws obs) in
  let n = min (Array.length a) (Array.length b) in
  let i = ref 0 in
  while !i < n && a.(!i) = b.(!i) do incr i done;
  Printf.sprintf "model differs at record %d: model=%s impl=%s" !i
    (if !i < Array.length a then a.(!i) else "<none>")
    (if !i < Array.length b then b.(!i) else "<none>")

let split_probe obs0 =
  match String.index_opt obs0 ' ' with
  | Some i when String.length obs0 >= 8 && String.sub obs0 0 6 = "probe:" ->
    (obs0.[6] = '1', obs0.[7] = '1', String.sub obs0 (i + 1) (String.length obs0 - i - 1))
  | _ -> fail "C03: observation without probe: %s" (String.sub obs0 0 (min 40 (String.length obs0)))

let render prev cur =
  List.mapi (fun j o -> match List.nth_opt prev j with Some p when p = o -> "=" | _ -> o) cur

(* ---------- harness "main": fork histories on pkg/trie/inmemory ---------- *)
let check_main inp obs0 =
  let fd, fg, obs = split_probe obs0 in
  let toks = split_ws inp in
  let toks = (match toks with "U" :: r -> r | l -> l) in
  let steps = List.map parse_step toks in
  let frozen = frozen_parents (core_steps steps) in
  let buf = Buffer.create 1024 in
  let st0, o0 = observe fg init_state in
  Buffer.add_string buf (String.concat "/" ("init" :: o0));
  let model_panic_at = ref (-1) in
  let cov = ref [] in
  let rec go st prev k = function
    | [] -> ()
    | s :: r ->
      cov := branch_cov fd st s @ !cov;
      let ((st1, res), extra) = xexec hh true fd st s in
      Buffer.add_char buf ' ';
      (match res with
       | ROk ->
         let st2, cur = observe fg st1 in
         let rs = (match extra with
           | Some (d, a) -> "ok:" ^ hex_of_n d ^ ":" ^ (if a then "1" else "0")
           | None -> "ok") in
         Buffer.add_string buf (String.concat "/" (rs :: render prev cur));
         go st2 cur (k + 1) r
       | RPanic -> model_panic_at := k; Buffer.add_string buf "panic"
       | RBad -> Buffer.add_string buf "bad")
  in
  go st0 o0 0 steps;
  let model = Buffer.contents buf in
  let kinds = Array.of_list (List.map2 (fun s tok ->
    ((match xmutated_handle s with Some i -> int_of_nat i | None -> -1),
     (match s with Core (Snap i) -> int_of_nat i | _ -> -1), tok)) steps toks) in
  let why = isolation_pred ~frozen ~model_panic_at:!model_panic_at kinds obs in
  let prop_ok = (why = "") in
  let model_eq = (model = obs) in
  let nsnap = List.length (List.filter (function Core (Snap _) -> true | _ -> false) steps) in
  let mut_after_snap =
    let rec f seen = function
      | [] -> false
      | Core (Snap _) :: r -> f true r
      | s :: r -> (seen && xmutated_handle s <> None) || f seen r in
    f false steps in
  let kinds_t = List.sort_uniq compare (List.map kind_tag steps) in
  let tags = String.concat "," (
    kinds_t @ List.sort_uniq compare !cov @ [Printf.sprintf "handles-%d" (1 + nsnap)]
    @ (if frozen then ["frozen-parents"] else ["parent-mutated"])
    @ [Printf.sprintf "tree-delete-fix-%b-get-fix-%b" fd fg]
    @ (if !model_panic_at >= 0 then ["version-regress-panic"] else [])) in
  { prop_ok; model_eq; nontrivial = (nsnap >= 1 && mut_after_snap); finding = "-"; tags;
    detail = (if prop_ok && model_eq then "" else if not prop_ok then "isolation: " ^ why else first_diff model obs) }


(* ---------- fork histories with child tries (P/E/K steps) ----------
   A child trie is one more handle of the heap model (coq/C03/ModelY.v, theorems
   C03_isolation_child_tries / C03_child_snapshot_view).  InMemoryTrie.Snapshot() gives every child
   trie of the source a new trie object of the next generation whose root is a COPY of the source's
   root node and whose version is the parent's: step SnapCopy.  PutIntoChild is AdoptVer
   (child.version = t.version), Hash, Put, Hash on the child handle followed by Put of the child
   root hash in the parent trie; ClearFromChild is Hash, Delete (, Hash) on the child handle and
   Put/Delete in the parent; a child trie that does not exist yet starts from step NewTrie. *)
let child_prefix = bytes_of_string ":child_storage:default:"
let child_keys = ["aa"; "bb"]

let check_kids inp obs0 =
  let fd, fg, obs = split_probe obs0 in
  let toks = split_ws inp in
  let cstate = (match toks with "cstate" :: _ -> true | _ -> false) in
  let toks = (match toks with "U" :: r -> r | "cstate" :: r -> r | l -> l) in
  (* `cstate`: the same steps through storage.TrieState, plus StoreTrie / TrieState(root) / restart:
     stored.(j) = root under which Go handle j was stored; tries: root -> first handle stored under it
     (the database); cache: root -> (handle, rebuilt from the database?) (the Tries map of the session) *)
  let stored : (int, string) Hashtbl.t = Hashtbl.create 8 in
  let tries : (string, int) Hashtbl.t = Hashtbl.create 8 in
  let cache : (string, int * bool) Hashtbl.t = Hashtbl.create 8 in
  let main : int list ref = ref [0] in                      (* Go handle -> model handle (reversed) *)
  let mi j = List.nth (List.rev !main) j in
  let kids : (int * string, int) Hashtbl.t = Hashtbl.create 8 in
  let ycore : ystep list ref = ref [] in
  let panic_at = ref (-1) in
  let tagl = ref [] in
  let tag t = if not (List.mem t !tagl) then tagl := t :: !tagl in
  let nh st = List.length st.s_hs in
  let handle st i = List.nth st.s_hs i in
  (* every step goes through the extracted model: [xexec] for the steps of Model.v, [yexec] for
     NewTrie / SnapCopy / AdoptVer of ModelY.v *)
  let run st (l : ystep list) : state * res * (n * bool) option =
    List.fold_left (fun (st, res, ex) s ->
      if res <> ROk then (st, res, ex) else begin
        ycore := s :: !ycore;
        match s with
        | Y xs ->
          List.iter (fun t -> tag t) (branch_cov fd st xs);
          let ((st1, r), e) = xexec hh true fd st xs in
          (st1, r, (match e with Some _ -> e | None -> ex))
        | _ -> let (st1, r) = yexec hh true fd st s in (st1, r, ex) end) (st, ROk, None) l in
  let c s = Y (Core s) in
  let root_hash st i = snd (hash_handle hh st.s_mem (handle st i)) in
  let main_has st i c =
    let key = child_prefix @ bytes_of_hex c in
    List.exists (fun (k, _) -> k = key) (entries_handle fg st.s_mem (handle st i)) in
  (* child tries whose key left the parent trie are gone *)
  let prune st =
    List.iteri (fun j m ->
      List.iter (fun c -> if Hashtbl.mem kids (j, c) && not (main_has st m c) then Hashtbl.remove kids (j, c)) child_keys)
      (List.rev !main) in
  let observe_all st =
    let m = ref st.s_mem in
    let one i =
      let hd = handle st i in
      let (m1, hv) = hash_handle hh !m hd in
      m := m1; obs_string hv (entries_handle fg !m hd) in
    let obs = List.mapi (fun j i ->
      let o = one i in
      o ^ String.concat "" (List.map (fun c ->
        "|" ^ c ^ "=" ^ (match Hashtbl.find_opt kids (j, c) with Some ci -> one ci | None -> "-")) child_keys))
      (List.rev !main) in
    ({ st with s_mem = !m }, obs) in
  let buf = Buffer.create 1024 in
  let st0, o0 = observe_all init_state in
  Buffer.add_string buf (String.concat "/" ("init" :: o0));
  let kinds = ref [] in
  (* Snapshot() of Go handle j: the main trie shares its root, every child trie gets a copy of its
     root and the parent's version; [loaded]: the source was rebuilt from the database with NewTrie
     (version V0), so the snapshot and its child tries are V0 tries (set here, outside the model) *)
  let snapshot st j loaded =
    let m = mi j in
    let (st1, res, e) = run st [c (Snap (nat_of_int m))] in
    if res <> ROk then (st1, res, e) else begin
      let nj = List.length !main in
      let nmain = nh st1 - 1 in
      main := nmain :: !main;
      let v1 = (if loaded then false else (handle st1 m).h_v1) in
      let st1 = (if loaded then
        { st1 with s_hs = List.mapi (fun i hd -> if i = nmain then { hd with h_v1 = false } else hd) st1.s_hs }
        else st1) in
      List.fold_left (fun (st, res, e) ck ->
        match Hashtbl.find_opt kids (j, ck) with
        | Some ci when res = ROk ->
          tag "child-snapshot";
          let (st2, res2, _) = run st [SnapCopy (nat_of_int ci, v1)] in
          Hashtbl.replace kids (nj, ck) (nh st2 - 1);
          (st2, res2, e)
        | _ -> (st, res, e)) (st1, res, e) child_keys end in
  let rec go st prev k = function
    | [] -> ()
    | tok :: r ->
      let body = String.sub tok 1 (String.length tok - 1) in
      let f = String.split_on_char ':' body in
      let j = int_of_string ("0x" ^ List.hd f) in
      if j >= List.length !main then Buffer.add_string buf " bad" else begin
      let m = mi j in
      let nm = nat_of_int m in
      let target = ref (-1) and snapsrc = ref (-1) in
      let resstr = ref "ok" in
      let (st1, res, extra) =
        (match tok.[0], f with
         | 's', [_] -> snapsrc := j; tag "snapshot"; snapshot st j false
         | 'S', [_] when cstate ->
           tag "state-store";
           let root = hex_of_bytes (root_hash st m) in
           if not (Hashtbl.mem tries root) then Hashtbl.add tries root j;
           if not (Hashtbl.mem cache root) then Hashtbl.add cache root (j, false);
           Hashtbl.replace stored j root;
           run st (c (HashOp nm) :: c (Commit nm) :: List.filter_map (fun ck ->
             match Hashtbl.find_opt kids (j, ck) with Some ci -> Some (c (Commit (nat_of_int ci))) | None -> None) child_keys)
         | 'R', [_] when cstate -> tag "state-restart"; Hashtbl.reset cache; (st, ROk, None)
         | 'T', [_] when cstate ->
           let root = (try Hashtbl.find stored j with Not_found -> fail "C03 cstate: T of an unstored handle") in
           let (sj, loaded) =
             (match Hashtbl.find_opt cache root with
              | Some x -> x
              | None -> let sj = Hashtbl.find tries root in Hashtbl.add cache root (sj, true); (sj, true)) in
           if loaded then tag "state-reload-from-db";
           if hex_of_bytes (root_hash st (mi sj)) <> root then (st, RPanic, None)
           else begin
             snapsrc := sj; tag "state-block";
             let (st1, res, e) = run st [c (HashOp (nat_of_int (mi sj)))] in
             if res <> ROk then (st1, res, e) else snapshot st1 sj loaded end
         | 'p', [_; ky; v] -> target := j; tag "put"; run st [c (Put (nm, bytes_of_hex ky, bytes_of_hex v))]
         | 'd', [_; ky] -> target := j; tag "delete"; run st [c (Del (nm, bytes_of_hex ky))]
         | 'c', [_; p] ->
           target := j; tag "clearprefix";
           let pb = bytes_of_hex p and cs = bytes_of_string ":child_storage:" in
           let rec pre a b = (match a, b with [], _ -> true | x :: a', y :: b' -> x = y && pre a' b' | _ :: _, [] -> false) in
           if cstate && (pre pb cs || pre cs pb) then (st, ROk, None)   (* TrieState.ClearPrefix refuses it *)
           else run st [c (Clear (nm, pb))]
         | 'l', [_; p; l] -> target := j; tag "clearprefixlimit"; run st [Y (ClearLimit (nm, bytes_of_hex p, n_of_hex l))]
         | 'v', [_; v] -> tag (if v = "1" then "setversion-v1" else "setversion-v0"); run st [c (SetVer (nm, v = "1"))]
         | 'w', [_] ->
           tag "writedirty";
           run st (c (Commit nm) :: List.filter_map (fun ck ->
             match Hashtbl.find_opt kids (j, ck) with Some ci -> Some (c (Commit (nat_of_int ci))) | None -> None) child_keys)
         | 'P', [_; ck; ky; v] ->
           target := j; tag "child-put";
           let st, ci =
             (match Hashtbl.find_opt kids (j, ck) with
              | Some ci -> (st, ci)
              | None ->
                tag "child-created";
                let (st1, _, _) = run st [NewTrie] in
                let ci = nh st1 - 1 in
                Hashtbl.replace kids (j, ck) ci;
                (st1, ci)) in
           let nc = nat_of_int ci in
           let (st1, res, e) = run st [AdoptVer (nc, nm); c (HashOp nc); c (Put (nc, bytes_of_hex ky, bytes_of_hex v)); c (HashOp nc)] in
           if res <> ROk then (st1, res, e)
           else run st1 [c (Put (nm, child_prefix @ bytes_of_hex ck, root_hash st1 ci))]
         | 'E', [_; ck; ky] ->
           target := j; tag "child-clear";
           (match Hashtbl.find_opt kids (j, ck) with
            | None -> tag "child-missing"; resstr := "ok:nochild"; (st, ROk, None)
            | Some ci ->
              let nc = nat_of_int ci in
              let (st1, res, e) = run st [c (HashOp nc); c (Del (nc, bytes_of_hex ky))] in
              if res <> ROk then (st1, res, e)
              else if (handle st1 ci).h_root = None then begin
                tag "child-emptied";
                Hashtbl.remove kids (j, ck);
                run st1 [c (Del (nm, child_prefix @ bytes_of_hex ck))] end
              else
                let (st2, res2, e2) = run st1 [c (HashOp nc)] in
                if res2 <> ROk then (st2, res2, e2)
                else run st2 [c (Put (nm, child_prefix @ bytes_of_hex ck, root_hash st2 ci))])
         | 'K', [_; ck] ->
           target := j; tag "child-delete";
           Hashtbl.remove kids (j, ck);
           run st [c (Del (nm, child_prefix @ bytes_of_hex ck))]
         | _ -> fail "C03: bad step %s" tok) in
      kinds := (!target, !snapsrc, tok) :: !kinds;
      Buffer.add_char buf ' ';
      (match res with
       | ROk ->
         prune st1;
         let st2, cur = observe_all st1 in
         let rs = (match extra with
           | Some (d, a) -> "ok:" ^ hex_of_n d ^ ":" ^ (if a then "1" else "0")
           | None -> !resstr) in
         Buffer.add_string buf (String.concat "/" (rs :: render prev cur));
         go st2 cur (k + 1) r
       | RPanic -> panic_at := k; Buffer.add_string buf "panic"
       | RBad -> Buffer.add_string buf "bad")
      end
  in
  go st0 o0 0 toks;
  let model = Buffer.contents buf in
  let frozen = yfrozen_parents (List.rev !ycore) in
  let why = isolation_pred ~frozen ~model_panic_at:!panic_at (Array.of_list (List.rev !kinds)) obs in
  let prop_ok = (why = "") in
  let model_eq = (model = obs) in
  let nsnap = List.length (List.filter (fun t -> t.[0] = 's' || t.[0] = 'T') toks) in
  let mut_after_snap =
    let rec f seen = function
      | [] -> false
      | t :: r -> if t.[0] = 's' || t.[0] = 'T' then f true r else (seen && String.contains "pdclPEK" t.[0]) || f seen r in
    f false toks in
  let tags = String.concat "," (
    ((if cstate then "cstate-harness" else "child-tries") :: List.sort compare !tagl) @ [Printf.sprintf "handles-%d" (1 + nsnap)]
    @ (if frozen then ["frozen-parents"] else ["parent-mutated"])
    @ (if !panic_at >= 0 then ["version-regress-panic"] else [])) in
  { prop_ok; model_eq; nontrivial = (nsnap >= 1 && mut_after_snap); finding = "-"; tags;
    detail = (if prop_ok && model_eq then "" else if not prop_ok then "isolation: " ^ why else first_diff model obs) }

(* ---------- harness "state": StoreTrie / TrieState(root) of dot/state ---------- *)
let check_state inp obs0 =
  let fd, fg, obs = split_probe obs0 in
  let toks = (match split_ws inp with "state" :: r -> r | _ -> fail "C03: bad state input") in
  let buf = Buffer.create 1024 in
  let st0, o0 = observe fg init_state in
  Buffer.add_string buf (String.concat "/" ("init" :: o0 @ ["@"]));
  let model_panic_at = ref (-1) in
  let tries : (string, int) Hashtbl.t = Hashtbl.create 16 in      (* database: root -> first handle stored under it *)
  let roots = ref [] in                                           (* the distinct stored roots, latest first *)
  (* the in-memory Tries map of the current session: root -> (handle with that trie's contents,
     loaded from the database?).  LoadFromDB builds the trie with NewTrie(nil, db): version V0;
     the reload itself (pkg/trie/inmemory Load, property C04/C05) is taken as a view-equal copy. *)
  let cache : (string, int * bool) Hashtbl.t = Hashtbl.create 16 in
  let prev_r : (string, string) Hashtbl.t = Hashtbl.create 16 in
  let render_roots cur =
    "@" :: List.map (fun root ->
      match Hashtbl.find_opt cache root with
      | None -> "-"
      | Some (j, _) ->
        let o = List.nth cur j in
        if Hashtbl.find_opt prev_r root = Some o then "=" else (Hashtbl.replace prev_r root o; o)) (List.rev !roots) in
  let stored : (int, string) Hashtbl.t = Hashtbl.create 16 in     (* handle -> root at its last StoreTrie *)
  let core = ref [] in                                            (* the model steps performed, in order *)
  let cov = ref [] in
  let kinds = ref [] in
  let run_core st (l : step list) =
    List.fold_left (fun (st, res) s ->
      if res <> ROk then (st, res) else begin
        core := s :: !core;
        cov := branch_cov fd st (Core s) @ !cov;
        let (st1, r) = exec hh true fd st s in (st1, r) end) (st, ROk) l in
  let root_of st k =
    let hd = List.nth st.s_hs k in
    let (_, hv) = hash_handle hh st.s_mem hd in hex_of_bytes hv in
  let rec go st prev k = function
    | [] -> ()
    | tok :: r ->
      let body = String.sub tok 1 (String.length tok - 1) in
      let f = String.split_on_char ':' body in
      let idx = int_of_string ("0x" ^ List.hd f) in
      let nidx = nat_of_int idx in
      let v0_new = ref false in
      let (steps, target, snapsrc) : step list * int * int =
        (match tok.[0], f with
         | 'p', [_; ky; v] -> ([Put (nidx, bytes_of_hex ky, bytes_of_hex v)], idx, -1)
         | 'd', [_; ky] -> ([Del (nidx, bytes_of_hex ky)], idx, -1)
         | 'c', [_; p] ->
           (* TrieState.ClearPrefix refuses a prefix that is part of, or contains, ":child_storage:"
              (repo commit be3ddb0ed): nothing is deleted *)
           let pb = bytes_of_hex p and cs = bytes_of_string ":child_storage:" in
           let rec pre a b = (match a, b with [], _ -> true | x :: a', y :: b' -> x = y && pre a' b' | _ :: _, [] -> false) in
           if pre pb cs || pre cs pb then ([], idx, -1) else ([Clear (nidx, pb)], idx, -1)
         | 'v', [_; v] -> ([SetVer (nidx, v = "1")], -1, -1)
         | 'S', [_] ->
           let root = root_of st idx in
           if not (Hashtbl.mem tries root) then begin Hashtbl.add tries root idx; roots := root :: !roots end;
           if not (Hashtbl.mem cache root) then Hashtbl.add cache root (idx, false);
           Hashtbl.replace stored idx root;
           ([HashOp nidx; Commit nidx], -1, -1)
         | 'T', [_] ->
           let root = (try Hashtbl.find stored idx with Not_found -> fail "C03 state: T of an unstored handle") in
           let (j, loaded) =
             (match Hashtbl.find_opt cache root with
              | Some c -> c
              | None -> let j = Hashtbl.find tries root in Hashtbl.add cache root (j, true); (j, true)) in
           v0_new := loaded;
           (* TrieState panics when the cached trie no longer has the expected root *)
           if root_of st j <> root then ([], -2, -1)
           else ([HashOp (nat_of_int j); Snap (nat_of_int j)], -1, j)
         | 'R', [_] -> Hashtbl.reset cache; ([], -1, -1)
         | 'X', [_] ->
           let root = (try Hashtbl.find stored idx with Not_found -> fail "C03 state: X of an unstored handle") in
           Hashtbl.remove cache root; ([], -1, -1)
         | _ -> fail "C03 state: bad step %s" tok) in
      kinds := (target, snapsrc, tok) :: !kinds;
      Buffer.add_char buf ' ';
      if target = -2 then begin model_panic_at := k; Buffer.add_string buf "panic" end
      else begin
        let (st1, res) = run_core st steps in
        (match res with
         | ROk ->
           let st1 =
             if !v0_new then   (* the snapshot of a trie rebuilt from the database is a V0 trie *)
               { st1 with s_hs = List.mapi (fun i hd ->
                   if i = List.length st1.s_hs - 1 then { hd with h_v1 = false } else hd) st1.s_hs }
             else st1 in
           let st2, cur = observe fg st1 in
           Buffer.add_string buf (String.concat "/" ("ok" :: render prev cur @ render_roots cur));
           go st2 cur (k + 1) r
         | RPanic -> model_panic_at := k; Buffer.add_string buf "panic"
         | RBad -> Buffer.add_string buf "bad")
      end
  in
  go st0 o0 0 toks;
  let model = Buffer.contents buf in
  let frozen = frozen_parents (List.rev !core) in
  (* in this harness a panic is never expected: TrieState(root) must find the cached trie intact *)
  let why = isolation_pred ~frozen ~model_panic_at:(-1) (Array.of_list (List.rev !kinds)) obs in
  let prop_ok = (why = "") in
  let model_eq = (model = obs) in
  let nT = List.length (List.filter (fun t -> t.[0] = 'T') toks) in
  let reloads =
    let rec f dropped = function
      | [] -> false
      | t :: r -> if t.[0] = 'R' || t.[0] = 'X' then f true r else (dropped && t.[0] = 'T') || f dropped r in
    f false toks in
  let tags = String.concat "," (
    ["state-harness"; Printf.sprintf "state-blocks-%d" nT] @ List.sort_uniq compare !cov
    @ (if reloads then ["state-reload-from-db"] else [])
    @ (if frozen then ["frozen-parents"] else ["parent-mutated"])
    @ (if Hashtbl.length tries < Hashtbl.length stored then ["state-same-root-stored-twice"] else [])) in
  { prop_ok; model_eq; nontrivial = (nT >= 1); finding = "-"; tags;
    detail = (if prop_ok && model_eq then "" else if not prop_ok then "isolation: " ^ why else first_diff model obs) }

let has_child_ops inp =
  List.exists (fun t -> t.[0] = 'P' || t.[0] = 'E' || t.[0] = 'K') (split_ws inp)

let check inp obs =
  if String.length inp >= 5 && String.sub inp 0 5 = "state" then check_state inp obs
  else if (String.length inp >= 6 && String.sub inp 0 6 = "cstate") || has_child_ops inp then check_kids inp obs
  else check_main inp obs

(* ---------- vm_compute cross-check (coq/C03/VmCheck.v) ----------
   A plain fork history (no child tries, not the `state` harness, copy-on-write contract respected,
   no panic) is rendered as the Gallina term  vm_replay blake2b_256 fd fg true <init views> <steps>
   <expected records>  from the IMPLEMENTATION's observations ("=" becomes None: unchanged); Coq
   recomputes the model's views after every step with its own evaluator and compares. *)
let coq_nat i = string_of_int i ^ "%nat"
let coq_bool b = if b then "true" else "false"
let coq_list l = "[" ^ String.concat "; " l ^ "]"
let coq_step (s : xstep) : string =
  let i n = coq_nat (int_of_nat n) in
  match s with
  | Core (Snap a) -> Printf.sprintf "Core (Snap %s)" (i a)
  | Core (Put (a, k, v)) -> Printf.sprintf "Core (Put %s %s %s)" (i a) (coq_bytes k) (coq_bytes v)
  | Core (Del (a, k)) -> Printf.sprintf "Core (Del %s %s)" (i a) (coq_bytes k)
  | Core (Clear (a, k)) -> Printf.sprintf "Core (Clear %s %s)" (i a) (coq_bytes k)
  | Core (SetVer (a, v)) -> Printf.sprintf "Core (SetVer %s %s)" (i a) (coq_bool v)
  | Core (Commit a) -> Printf.sprintf "Core (Commit %s)" (i a)
  | Core (HashOp a) -> Printf.sprintf "Core (HashOp %s)" (i a)
  | ClearLimit (a, p, l) -> Printf.sprintf "ClearLimit %s %s %s" (i a) (coq_bytes p) (coq_n l)

let coq_view (o : string) : string option =
  match String.index_opt o '#' with
  | None -> None
  | Some p ->
    let h = String.sub o 0 p and e = String.sub o (p + 1) (String.length o - p - 1) in
    let ents = if e = "." then [] else
      List.map (fun kv -> match String.split_on_char ':' kv with
        | [k; v] -> Printf.sprintf "(%s, %s)" (coq_bytes (bytes_of_hex k)) (coq_bytes (bytes_of_hex v))
        | _ -> fail "C03: bad entry %s" kv) (String.split_on_char ',' e) in
    Some (Printf.sprintf "(%s, %s)" (coq_bytes (bytes_of_hex h)) (coq_list ents))

let coq inp obs0 =
  if (String.length inp >= 5 && String.sub inp 0 5 = "state") || has_child_ops inp
     || (String.length inp >= 6 && String.sub inp 0 6 = "cstate") then None else
  let fd, fg, obs = split_probe obs0 in
  let toks = split_ws inp in
  if toks = [] || List.hd toks = "U" then None else
  let steps = List.map parse_step toks in
  if not (frozen_parents (core_steps steps)) then None else
  let recs = split_ws obs in
  if List.length recs <> List.length steps + 1 then None else
  try
    let view o = (match coq_view o with Some v -> v | None -> raise Exit) in
    let init = (match String.split_on_char '/' (List.hd recs) with
      | "init" :: o -> coq_list (List.map view o) | _ -> raise Exit) in
    let exp = List.map (fun r ->
      match String.split_on_char '/' r with
      | res :: o ->
        let ex = (match String.split_on_char ':' res with
          | ["ok"] -> "None"
          | ["ok"; d; a] -> Printf.sprintf "Some (%s, %s)" (coq_n (n_of_hex d)) (coq_bool (a = "1"))
          | _ -> raise Exit) in
        Printf.sprintf "(%s, %s)" ex
          (coq_list (List.map (fun x -> if x = "=" then "None" else "Some " ^ view x) o))
      | [] -> raise Exit) (List.tl recs) in
    Some (Printf.sprintf "vm_replay blake2b_256 %s %s true %s %s %s" (coq_bool fd) (coq_bool fg) init
            (coq_list (List.map coq_step steps)) (coq_list exp))
  with Exit -> None

let () = run_driver ~coq check
