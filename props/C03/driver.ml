(* C03 driver: replays a fork history on the extracted heap model (repaired code, fx = true),
   compares Hash()/Entries() of every live handle after every step, and evaluates the isolation
   predicate of C03_isolation on the implementation's own observables:
   a step that mutates handle i leaves the observation of every other handle unchanged; Snapshot,
   SetVersion, WriteDirty leave every observation unchanged; a new snapshot shows what its source
   shows; nothing panics (except SetVersion regressing the version, by design).
   The predicate applies to histories satisfying frozen_parents (the theorem's hypothesis). *)
open Model
open Vutil

let memo : (string, byte list) Hashtbl.t = Hashtbl.create 4096
let hh (b : byte list) : byte list =
  let k = string_of_bytes b in
  match Hashtbl.find_opt memo k with
  | Some v -> v
  | None -> let v = blake2b_256 b in Hashtbl.add memo k v; v

let parse_step tok : xstep =
  let body = String.sub tok 1 (String.length tok - 1) in
  let f = String.split_on_char ':' body in
  let idx s = nat_of_int (int_of_string ("0x" ^ s)) in
  match tok.[0], f with
  | 's', [i] -> Core (Snap (idx i))
  | 'p', [i; k; v] -> Core (Put (idx i, bytes_of_hex k, bytes_of_hex v))
  | 'd', [i; k] -> Core (Del (idx i, bytes_of_hex k))
  | 'c', [i; p] -> Core (Clear (idx i, bytes_of_hex p))
  | 'l', [i; p; l] -> ClearLimit (idx i, bytes_of_hex p, n_of_hex l)
  | 'v', [i; v] -> Core (SetVer (idx i, v = "1"))
  | 'w', [i] -> Core (Commit (idx i))
  | _ -> fail "C03: bad step %s" tok

let obs_string (hash : byte list) (ents : (byte list * byte list) list) : string =
  let ents = List.sort compare (List.map (fun (k, v) -> (string_of_bytes k, v)) ents) in
  let b = Buffer.create 256 in
  Buffer.add_string b (hex_of_bytes hash);
  Buffer.add_char b '#';
  if ents = [] then Buffer.add_char b '.';
  List.iteri (fun i (k, v) ->
    if i > 0 then Buffer.add_char b ',';
    Buffer.add_string b (hex_of_bytes (bytes_of_string k));
    Buffer.add_char b ':';
    Buffer.add_string b (hex_of_bytes v)) ents;
  Buffer.contents b

(* observe every handle (Hash then Entries), threading the cache writes of Hash *)
let observe fg (st : state) : state * string list =
  let m = ref st.s_mem in
  let obs = List.map (fun hd ->
    let (m1, hv) = hash_handle hh !m hd in
    m := m1;
    obs_string hv (entries_handle fg !m hd)) st.s_hs in
  ({ st with s_mem = !m }, obs)

let kind_tag = function
  | Core (Snap _) -> "snapshot" | Core (Put _) -> "put" | Core (Del _) -> "delete" | Core (Clear _) -> "clearprefix"
  | Core (SetVer (_, true)) -> "setversion-v1" | Core (SetVer (_, false)) -> "setversion-v0"
  | Core (Commit _) -> "writedirty" | Core (HashOp _) -> "hash"
  | ClearLimit _ -> "clearprefixlimit"

let core_steps steps = List.filter_map (function Core s -> Some s | ClearLimit (i, p, _) -> Some (Clear (i, p))) steps

let check inp obs0 =
  (* the first field tells which pending Delete/Get repairs the tree under test contains *)
  let fd, fg, obs =
    (match String.index_opt obs0 ' ' with
     | Some i when String.length obs0 >= 8 && String.sub obs0 0 6 = "probe:" ->
       (obs0.[6] = '1', obs0.[7] = '1', String.sub obs0 (i + 1) (String.length obs0 - i - 1))
     | _ -> fail "C03: observation without probe: %s" (String.sub obs0 0 (min 40 (String.length obs0)))) in
  let toks = split_ws inp in
  let toks = (match toks with "U" :: r -> r | l -> l) in
  let steps = List.map parse_step toks in
  let frozen = frozen_parents (core_steps steps) in
  (* ---- model run *)
  let render prev cur = (* "=" for unchanged handles *)
    List.mapi (fun j o -> match List.nth_opt prev j with Some p when p = o -> "=" | _ -> o) cur in
  let buf = Buffer.create 1024 in
  let st0, o0 = observe fg init_state in
  Buffer.add_string buf (String.concat "/" ("init" :: o0));
  let model_panic_at = ref (-1) in
  let rec go st prev k = function
    | [] -> ()
    | s :: r ->
      let ((st1, res), extra) = xexec hh true fd st s in
      Buffer.add_char buf ' ';
      (match res with
       | ROk ->
         let st2, cur = observe fg st1 in
         let rs = (match extra with
           | Some (d, a) -> "ok:" ^ hex_of_n d ^ ":" ^ (if a then "1" else "0")
           | None -> "ok") in
         Buffer.add_string buf (String.concat "/" (rs :: render prev cur));
         go st2 cur (k + 1) r
       | RPanic -> model_panic_at := k; Buffer.add_string buf "panic"
       | RBad -> Buffer.add_string buf "bad")
  in
  go st0 o0 0 steps;
  let model = Buffer.contents buf in
  (* ---- the isolation predicate on the implementation's observables *)
  let recs = Array.of_list (split_ws obs) in
  let why = ref "" in
  let fail_with s = if !why = "" then why := s in
  let cur : string array ref = ref [||] in
  (if Array.length recs = 0 then fail_with "no-observation" else begin
    (match String.split_on_char '/' recs.(0) with
     | "init" :: o -> cur := Array.of_list o
     | _ -> fail_with "init-shape");
    let nsteps = List.length steps in
    List.iteri (fun k s ->
      if !why = "" then begin
        if k + 1 >= Array.length recs then begin
          (* the history stopped early: only legitimate after a panic record *)
          ()
        end else begin
          let f = String.split_on_char '/' recs.(k + 1) in
          match f with
          | ["panic"] | ["err"] | ["bad"] ->
            if not (List.hd f = "panic" && !model_panic_at = k) then
              fail_with (Printf.sprintf "step %d (%s): %s" k (List.nth toks k) (List.hd f))
          | res :: o ->
            if List.mem "panic" o then fail_with (Printf.sprintf "step %d (%s): panic while observing" k (List.nth toks k))
            else begin
              let o = Array.of_list o in
              let nold = Array.length !cur in
              let target = (match xmutated_handle s with Some i -> int_of_nat i | None -> -1) in
              if frozen then
                Array.iteri (fun j x ->
                  if j < nold && j <> target && x <> "=" then
                    fail_with (Printf.sprintf "step %d (%s) changed handle %d: %s -> %s" k (List.nth toks k) j (!cur).(j) x)) o;
              (* expand *)
              let next = Array.mapi (fun j x -> if x = "=" && j < nold then (!cur).(j) else x) o in
              (match s with
               | Core (Snap i) ->
                 let i = int_of_nat i in
                 if Array.length next <> nold + 1 then fail_with (Printf.sprintf "step %d: snapshot did not add a handle" k)
                 else if i < nold && next.(nold) <> next.(i) then
                   fail_with (Printf.sprintf "step %d (%s): new snapshot differs from its source: %s vs %s" k (List.nth toks k) next.(nold) next.(i))
               | _ -> if Array.length next <> nold then fail_with (Printf.sprintf "step %d: handle count changed" k));
              ignore res;
              cur := next
            end
          | [] -> fail_with "empty-record"
        end
      end) steps;
    (* a truncated observation without a panic marker is a harness problem, reported as such *)
    if !why = "" && Array.length recs < nsteps + 1 then begin
      let last = recs.(Array.length recs - 1) in
      let lf = String.split_on_char '/' last in
      if not (List.mem "panic" lf || List.mem "err" lf || List.mem "bad" lf) then fail_with "truncated-observation"
    end
  end);
  let prop_ok = (!why = "") in
  let model_eq = (model = obs) in
  let nsnap = List.length (List.filter (function Core (Snap _) -> true | _ -> false) steps) in
  let mut_after_snap =
    let rec f seen = function
      | [] -> false
      | Core (Snap _) :: r -> f true r
      | s :: r -> (seen && xmutated_handle s <> None) || f seen r in
    f false steps in
  let kinds = List.sort_uniq compare (List.map kind_tag steps) in
  let tags = String.concat "," (
    kinds @ [Printf.sprintf "handles-%d" (1 + nsnap)]
    @ (if frozen then ["frozen-parents"] else ["parent-mutated"])
    @ [Printf.sprintf "tree-delete-fix-%b-get-fix-%b" fd fg]
    @ (if !model_panic_at >= 0 then ["version-regress-panic"] else [])) in
  { prop_ok; model_eq; nontrivial = (nsnap >= 1 && mut_after_snap); finding = "-"; tags;
    detail = (if prop_ok && model_eq then ""
              else if not prop_ok then "isolation: " ^ !why
              else
                (* first differing record *)
                let a = Array.of_list (split_ws model) and b = recs in
                let n = min (Array.length a) (Array.length b) in
                let i = ref 0 in
                while !i < n && a.(!i) = b.(!i) do incr i done;
                Printf.sprintf "model differs at record %d: model=%s impl=%s" !i
                  (if !i < Array.length a then a.(!i) else "<none>")
                  (if !i < Array.length b then b.(!i) else "<none>")) }

let () = run_driver check
