// C03 correspondence harness (injected into package dot/state by `go test -overlay`;
// the fork histories use the exported API of pkg/trie/inmemory, the `state` histories go through
// InmemoryStorageState.StoreTrie / TrieState).
//
// One case = one fork history over copy-on-write snapshots of an in-memory trie.
// Handle 0 is NewEmptyTrie(); every `s` step appends a new handle.
//
// input: steps separated by one space
//   s<i>                    handle i .Snapshot()  -> new handle (next index)
//   p<i>:<key>:<value>      Put
//   d<i>:<key>              Delete
//   c<i>:<prefix>           ClearPrefix
//   l<i>:<prefix>:<limit>   ClearPrefixLimit (limit in hex)
//   v<i>:<0|1>              SetVersion(V0|V1)
//   w<i>                    WriteDirty(fresh in-memory database)
//   P<i>:<c>:<key>:<value>  PutIntoChild(child key c, key, value)      (child tries: Snapshot() gives every
//   E<i>:<c>:<key>          ClearFromChild(child key c, key)            child trie of the source a new trie
//   K<i>:<c>                DeleteChild(child key c)                    object with a copy of the root node)
//   (keys/values: lower-case hex, "-" for empty)
// an optional first token `U` marks a history that mutates a handle after a snapshot was taken
// from it (sharing with the snapshot is then by design; only model agreement is checked).
//
// observed: `probe:<d><g>` (see c03Probe), then records separated by one space, the first for the
// initial state, then one per step:
//   <res>/<obs 0>/<obs 1>/...       res = init | ok | ok:<deleted hex>:<allDeleted 0|1> | panic
//   obs j = "=" when Hash() and Entries() of handle j are what they were in the previous record,
//           else <root hash hex>#<k>:<v>,<k>:<v>,...   (entries sorted by key; "." when empty)
//           in a history with a P/E/K step every obs is followed by `|aa=<view>|bb=<view>`: Hash#Entries of
//           the child tries GetChild(0xaa), GetChild(0xbb) of that handle (`-`: no such child trie)
//   res of E: ok | ok:nochild (ClearFromChild answered with an error: no such child trie)
//   after a panic (in the step or while observing) the history stops.
// Hash() then Entries() are called on EVERY live handle after every step, in index order.
//
// ---- second kind of input ----
// the copy-on-write snapshots as the node uses them — InmemoryStorageState.StoreTrie caches a trie
// under its root (Tries.softSet: the first trie stored under a root stays) and writes its dirty
// nodes; InmemoryStorageState.TrieState(root) takes a Snapshot of the cached trie and panics with
// "trie does not have expected root" when the cached trie no longer hashes to that root.
//
// input: `state` then steps separated by one space; handle 0 is a TrieState over NewEmptyTrie()
//   p<k>:<key>:<value>  d<k>:<key>  c<k>:<prefix>  v<k>:<0|1>     on TrieState k (no open transaction;
//                       TrieState.ClearPrefix refuses prefixes covering ":child_storage:", e.g. the empty one)
//   S<k>                StoreTrie(TrieState k, nil)
//   T<k>                TrieState(&root) with the root under which k was last stored -> new handle
//   R0                  restart: a new InmemoryStorageState with NewTries() on the same database, so that
//                       TrieState(root) takes the path that rebuilds the trie from the database
//   X<k>                the root under which k was last stored is pruned from the in-memory Tries map
// after the handles every record carries `@` and, per distinct stored root in order of first store,
// the view (hash#entries) of the trie the Tries map holds under that root (`-` when it holds none;
// the map is read directly, never through loadTrie, which would repopulate it).
// observed: as in harness_test.go (probe, init record, one record per step; Root and TrieEntries
// of EVERY live TrieState after every step).
//
// ---- third kind of input: `cstate` ----
// child tries through storage.TrieState and dot/state: handle 0 is a TrieState over NewEmptyTrie();
//   p/d/c/v as above, P<k>:<c>:<key>:<value> = SetChildStorage, E<k>:<c>:<key> = ClearChildStorage, K<k>:<c> = DeleteChild
//   (no open transaction: PutIntoChild / ClearFromChild of the in-memory trie),
//   S<k> StoreTrie (WriteDirty writes the child tries too), T<k> TrieState(&root) -> new handle
//   (Snapshot() of the cached trie: every child trie gets a new trie with a copy of its root),
//   R0 restart on the same database (TrieState(&root) then rebuilds the trie AND its child tries
//   from the database: InMemoryTrie.Load).
// observed: as for fork histories with child tries: every obs is <main view>|aa=<view>|bb=<view>.
package state

import (
	"fmt"
	"sort"
	"strings"
	"testing"

	"github.com/ChainSafe/gossamer/internal/database"
	vu "github.com/ChainSafe/gossamer/internal/verifutil"
	"github.com/ChainSafe/gossamer/lib/common"
	"github.com/ChainSafe/gossamer/lib/runtime/storage"
	"github.com/ChainSafe/gossamer/pkg/trie"
	inmemory_trie "github.com/ChainSafe/gossamer/pkg/trie/inmemory"
)

// ---- a throw-away database for WriteDirty
type c03Batch struct{ m map[string][]byte }

func (b *c03Batch) Put(k, v []byte) error { b.m[string(k)] = append([]byte{}, v...); return nil }
func (b *c03Batch) Del(k []byte) error    { delete(b.m, string(k)); return nil }
func (b *c03Batch) Flush() error          { return nil }
func (b *c03Batch) Close() error          { return nil }
func (b *c03Batch) ValueSize() int        { return 0 }
func (b *c03Batch) Reset()                {}

type c03DB struct{ m map[string][]byte }

func (d *c03DB) NewBatch() database.Batch { return &c03Batch{m: d.m} }

func c03Observe(t *inmemory_trie.InMemoryTrie) (obs string, panicked bool) {
	defer func() {
		if r := recover(); r != nil {
			obs, panicked = "panic", true
		}
	}()
	h, err := t.Hash()
	if err != nil {
		return "err", false
	}
	ent := t.Entries()
	keys := make([]string, 0, len(ent))
	for k := range ent {
		keys = append(keys, k)
	}
	sort.Strings(keys)
	var sb strings.Builder
	sb.WriteString(vu.Hex(h[:]))
	sb.WriteByte('#')
	if len(keys) == 0 {
		sb.WriteByte('.')
	}
	for i, k := range keys {
		if i > 0 {
			sb.WriteByte(',')
		}
		sb.WriteString(vu.Hex([]byte(k)))
		sb.WriteByte(':')
		sb.WriteString(vu.Hex(ent[k]))
	}
	return sb.String(), false
}

var c03ChildKeys = [][]byte{{0xaa}, {0xbb}}

// main view, then the views of the child tries under the child keys 0xaa and 0xbb
func c03ObserveAll(t *inmemory_trie.InMemoryTrie, withChildren bool) (obs string, panicked bool) {
	obs, panicked = c03Observe(t)
	if panicked || !withChildren {
		return obs, panicked
	}
	defer func() {
		if r := recover(); r != nil {
			obs, panicked = "panic", true
		}
	}()
	for _, ck := range c03ChildKeys {
		o := "-"
		ch, err := t.GetChild(ck)
		if err == nil && ch != nil {
			if ct, ok := ch.(*inmemory_trie.InMemoryTrie); ok && ct != nil {
				var p bool
				o, p = c03Observe(ct)
				if p {
					return "panic", true
				}
			}
		}
		obs += "|" + vu.Hex(ck) + "=" + o
	}
	return obs, false
}

func c03HasChildOps(toks []string) bool {
	for _, t := range toks {
		if t != "" && (t[0] == 'P' || t[0] == 'E' || t[0] == 'K') {
			return true
		}
	}
	return false
}

func c03Step(hs *[]*inmemory_trie.InMemoryTrie, tok string) (res string) {
	defer func() {
		if r := recover(); r != nil {
			res = "panic"
		}
	}()
	f := strings.Split(tok[1:], ":")
	i := int(vu.UnX(f[0]))
	if i >= len(*hs) {
		return "bad"
	}
	t := (*hs)[i]
	switch tok[0] {
	case 's':
		*hs = append(*hs, t.Snapshot())
	case 'p':
		if err := t.Put(vu.UnHex(f[1]), vu.UnHex(f[2])); err != nil {
			return "err"
		}
	case 'd':
		if err := t.Delete(vu.UnHex(f[1])); err != nil {
			return "err"
		}
	case 'c':
		if err := t.ClearPrefix(vu.UnHex(f[1])); err != nil {
			return "err"
		}
	case 'l':
		del, all, err := t.ClearPrefixLimit(vu.UnHex(f[1]), uint32(vu.UnX(f[2])))
		if err != nil {
			return "err"
		}
		a := "0"
		if all {
			a = "1"
		}
		return "ok:" + vu.X(uint64(del)) + ":" + a
	case 'v':
		if f[1] == "1" {
			t.SetVersion(trie.V1)
		} else {
			t.SetVersion(trie.V0)
		}
	case 'w':
		if err := t.WriteDirty(&c03DB{m: map[string][]byte{}}); err != nil {
			return "err"
		}
	case 'P':
		if err := t.PutIntoChild(vu.UnHex(f[1]), vu.UnHex(f[2]), vu.UnHex(f[3])); err != nil {
			return "err"
		}
	case 'E':
		if err := t.ClearFromChild(vu.UnHex(f[1]), vu.UnHex(f[2])); err != nil {
			return "ok:nochild"
		}
	case 'K':
		if err := t.DeleteChild(vu.UnHex(f[1])); err != nil {
			return "err"
		}
	default:
		return "bad"
	}
	return "ok"
}

// c03Probe reports which of two pending repairs of Delete/Get (property C02) the tree under test
// contains, so that the driver replays the matching model variant:
//   first digit  1: Delete(0x01) on {0x0123, 0x0456} leaves 0x0123 in place
//   second digit 1: Get(0x01) on {0x012345, 0x012367, 0x0456} (a nested branch) returns nil
func c03Probe() string {
	d, g := "0", "0"
	t := inmemory_trie.NewEmptyTrie()
	_ = t.Put([]byte{0x01, 0x23}, []byte{1})
	_ = t.Put([]byte{0x04, 0x56}, []byte{2})
	_ = t.Delete([]byte{0x01})
	if t.Get([]byte{0x01, 0x23}) != nil {
		d = "1"
	}
	u := inmemory_trie.NewEmptyTrie()
	_ = u.Put([]byte{0x01, 0x23, 0x45}, []byte{1})
	_ = u.Put([]byte{0x01, 0x23, 0x67}, []byte{2})
	_ = u.Put([]byte{0x04, 0x56}, []byte{3})
	// make the nested branch carry a value so that a wrong read is visible
	_ = u.Put([]byte{0x01, 0x23}, []byte{4})
	if u.Get([]byte{0x01}) == nil {
		g = "1"
	}
	return "probe:" + d + g
}

func c03Run(in string) string {
	toks := strings.Split(in, " ")
	if len(toks) > 0 && toks[0] == "U" {
		toks = toks[1:]
	}
	hs := []*inmemory_trie.InMemoryTrie{inmemory_trie.NewEmptyTrie()}
	withChildren := c03HasChildOps(toks)
	var prev []string
	var out strings.Builder
	out.WriteString(c03Probe() + " ")
	record := func(res string) bool {
		out.WriteString(res)
		for j, t := range hs {
			o, p := c03ObserveAll(t, withChildren)
			if p {
				out.WriteString("/panic")
				return false
			}
			if j < len(prev) && prev[j] == o {
				out.WriteString("/=")
			} else {
				out.WriteString("/" + o)
			}
			if j < len(prev) {
				prev[j] = o
			} else {
				prev = append(prev, o)
			}
		}
		return true
	}
	if !record("init") {
		return out.String()
	}
	for _, tok := range toks {
		if tok == "" {
			continue
		}
		res := c03Step(&hs, tok)
		out.WriteByte(' ')
		if res == "panic" || res == "bad" || res == "err" {
			out.WriteString(res)
			break
		}
		if !record(res) {
			break
		}
	}
	return out.String()
}

// ---- generator

var c03KeyBytes = []byte{0x01, 0x10, 0x12, 0x1f, 0x20, 0xf0}

// prefixes for clear operations never end in a zero low nibble (ClearPrefix trims one trailing
// zero nibble: property C02's subject, kept out of this check)
var c03PrefixBytes = []byte{0x01, 0x12, 0x1f}

func c03Key(r *vu.RNG) []byte {
	n := r.Intn(4)
	k := make([]byte, n)
	for i := range k {
		k[i] = c03KeyBytes[r.Intn(len(c03KeyBytes))]
	}
	return k
}

var c03ValLens = []int{0, 1, 31, 32, 33, 40}

func c03Val(r *vu.RNG) []byte {
	n := c03ValLens[r.Intn(len(c03ValLens))]
	if r.Chance(1, 2) {
		n = 33 + r.Intn(2)*7 // 33 or 40: hashed under V1
	}
	b := byte(0xa0 + r.Intn(3))
	v := make([]byte, n)
	for i := range v {
		v[i] = b
	}
	return v
}

type c03GenHandle struct {
	kv     map[string][]byte
	frozen bool
	v1     bool
	kids   map[string]map[string][]byte // child key (hex) -> contents
}

// keys of the two child tries come from disjoint alphabets: two child tries of one trie never have
// equal contents (child tries are kept by root hash; equal contents are property C08's subject)
var c03ChildAlphabet = map[string][]byte{"aa": {0x01, 0x12}, "bb": {0x20, 0xf0}}

func c03ChildOp(r *vu.RNG, i int, h *c03GenHandle) string {
	c := []string{"aa", "bb"}[r.Intn(2)]
	if h.kids == nil {
		h.kids = map[string]map[string][]byte{}
	}
	kv := h.kids[c]
	var keys []string
	for k := range kv {
		keys = append(keys, k)
	}
	sort.Strings(keys)
	newKey := func() []byte {
		al := c03ChildAlphabet[c]
		k := make([]byte, 1+r.Intn(2))
		for q := range k {
			k[q] = al[r.Intn(len(al))]
		}
		return k
	}
	x := vu.X(uint64(i))
	switch y := r.Intn(10); {
	case y < 1 && kv != nil:
		delete(h.kids, c)
		return "K" + x + ":" + c
	case y < 4 && len(keys) > 0:
		k := keys[r.Intn(len(keys))]
		if r.Chance(1, 5) {
			k = string(newKey())
		}
		delete(kv, k)
		if len(kv) == 0 {
			delete(h.kids, c)
		}
		return "E" + x + ":" + c + ":" + vu.Hex([]byte(k))
	default:
		var k, v []byte
		switch {
		case len(keys) > 0 && r.Chance(1, 3): // re-put the same value (the version may have changed)
			k = []byte(keys[r.Intn(len(keys))])
			v = kv[string(k)]
		case len(keys) > 0 && r.Chance(1, 4):
			k, v = []byte(keys[r.Intn(len(keys))]), c03Val(r)
		default:
			k, v = newKey(), c03Val(r)
		}
		if kv == nil {
			kv = map[string][]byte{}
			h.kids[c] = kv
		}
		kv[string(k)] = v
		return "P" + x + ":" + c + ":" + vu.Hex(k) + ":" + vu.Hex(v)
	}
}

func c03Existing(r *vu.RNG, h *c03GenHandle) (string, bool) {
	if len(h.kv) == 0 {
		return "", false
	}
	keys := make([]string, 0, len(h.kv))
	for k := range h.kv {
		keys = append(keys, k)
	}
	sort.Strings(keys)
	return keys[r.Intn(len(keys))], true
}

// one random fork history; unfrozen = true allows mutating a handle that was snapshotted
func c03History(r *vu.RNG, steps int, unfrozen bool, kids bool) string {
	hs := []*c03GenHandle{{kv: map[string][]byte{}}}
	var toks []string
	if unfrozen {
		toks = append(toks, "U")
	}
	pick := func() int { // a handle that may be mutated
		var c []int
		for i, h := range hs {
			if unfrozen || !h.frozen {
				c = append(c, i)
			}
		}
		// prefer recent handles
		if r.Chance(1, 2) {
			return c[len(c)-1]
		}
		return c[r.Intn(len(c))]
	}
	for s := 0; s < steps; s++ {
		i := pick()
		h := hs[i]
		x := r.Intn(100)
		if kids && (r.Chance(1, 4) || (s < 3 && r.Chance(1, 2))) {
			toks = append(toks, c03ChildOp(r, i, h))
			continue
		}
		switch {
		case x < 14 && len(hs) < 6: // snapshot (of any handle, frozen or not)
			j := r.Intn(len(hs))
			if r.Chance(2, 3) {
				j = i
			}
			src := hs[j]
			src.frozen = true
			nkv := map[string][]byte{}
			for k, v := range src.kv {
				nkv[k] = v
			}
			nh := &c03GenHandle{kv: nkv, v1: src.v1}
			for c, ckv := range src.kids {
				if nh.kids == nil {
					nh.kids = map[string]map[string][]byte{}
				}
				m := map[string][]byte{}
				for k, v := range ckv {
					m[k] = v
				}
				nh.kids[c] = m
			}
			hs = append(hs, nh)
			toks = append(toks, "s"+vu.X(uint64(j)))
		case x < 22: // raise the version (of any handle: allowed on frozen ones too)
			j := i
			if r.Chance(1, 4) {
				j = r.Intn(len(hs))
			}
			v := "1"
			if r.Chance(1, 12) {
				v = "0"
			}
			if v == "1" {
				hs[j].v1 = true
			}
			toks = append(toks, "v"+vu.X(uint64(j))+":"+v)
		case x < 32: // WriteDirty on any handle
			j := i
			if r.Chance(1, 3) {
				j = r.Intn(len(hs))
			}
			toks = append(toks, "w"+vu.X(uint64(j)))
		case x < 46: // delete
			var k []byte
			if e, ok := c03Existing(r, h); ok && r.Chance(3, 4) {
				k = []byte(e)
			} else {
				k = c03Key(r)
			}
			delete(h.kv, string(k))
			toks = append(toks, "d"+vu.X(uint64(i))+":"+vu.Hex(k))
		case x < 57 && x >= 52: // clear prefix with a limit
			var p []byte
			if r.Chance(1, 4) {
				p = []byte{}
			} else {
				n := 1 + r.Intn(2)
				p = make([]byte, n)
				for q := range p {
					p[q] = c03KeyBytes[r.Intn(len(c03KeyBytes))]
				}
				p[n-1] = c03PrefixBytes[r.Intn(len(c03PrefixBytes))]
			}
			limit := []int{0, 1, 1, 2, 3, 100}[r.Intn(6)]
			var ks []string
			for k := range h.kv {
				if strings.HasPrefix(k, string(p)) {
					ks = append(ks, k)
				}
			}
			sort.Strings(ks)
			for q, k := range ks {
				if q < limit {
					delete(h.kv, k)
				}
			}
			toks = append(toks, "l"+vu.X(uint64(i))+":"+vu.Hex(p)+":"+vu.X(uint64(limit)))
		case x < 52: // clear prefix
			var p []byte
			switch r.Intn(4) {
			case 0:
				p = []byte{}
			default:
				n := 1 + r.Intn(2)
				p = make([]byte, n)
				for q := range p {
					p[q] = c03KeyBytes[r.Intn(len(c03KeyBytes))]
				}
				p[n-1] = c03PrefixBytes[r.Intn(len(c03PrefixBytes))]
			}
			for k := range h.kv {
				if strings.HasPrefix(k, string(p)) {
					delete(h.kv, k)
				}
			}
			toks = append(toks, "c"+vu.X(uint64(i))+":"+vu.Hex(p))
		default: // put
			var k, v []byte
			e, ok := c03Existing(r, h)
			switch {
			case ok && r.Chance(1, 3): // re-put the SAME value (the version may have changed)
				k, v = []byte(e), h.kv[e]
			case ok && r.Chance(1, 4): // overwrite
				k, v = []byte(e), c03Val(r)
			default:
				k, v = c03Key(r), c03Val(r)
			}
			h.kv[string(k)] = v
			toks = append(toks, "p"+vu.X(uint64(i))+":"+vu.Hex(k)+":"+vu.Hex(v))
		}
	}
	return strings.Join(toks, " ")
}

// directed: V0 trie with long values (leaf and branch-with-value), optional WriteDirty, Snapshot,
// SetVersion(V1) on the snapshot (or on the original), re-Put of equal values.
func c03Upgrade(r *vu.RNG) string {
	var toks []string
	base := [][]byte{{0x12}, {0x12, 0x34}, {0x12, 0x35}, {0x20}}
	n := 1 + r.Intn(len(base))
	vals := map[string][]byte{}
	for q := 0; q < n; q++ {
		k := base[q]
		if r.Chance(1, 4) {
			k = c03Key(r)
		}
		v := make([]byte, 33+r.Intn(10))
		for z := range v {
			v[z] = byte(0xb0 + q)
		}
		if r.Chance(1, 5) {
			v = v[:32-r.Intn(2)]
		}
		vals[string(k)] = v
		toks = append(toks, "p0:"+vu.Hex(k)+":"+vu.Hex(v))
	}
	if r.Chance(1, 2) {
		toks = append(toks, "w0")
	}
	toks = append(toks, "s0")
	if r.Chance(1, 3) {
		toks = append(toks, "s0")
	}
	who := "1"
	toks = append(toks, "v"+who+":1")
	keys := make([]string, 0, len(vals))
	for k := range vals {
		keys = append(keys, k)
	}
	sort.Strings(keys)
	for _, k := range keys {
		if r.Chance(2, 3) {
			toks = append(toks, "p"+who+":"+vu.Hex([]byte(k))+":"+vu.Hex(vals[k]))
		}
	}
	if r.Chance(1, 2) {
		toks = append(toks, "w"+who)
	}
	if r.Chance(1, 2) {
		toks = append(toks, "s1", "p"+vu.X(uint64(1+strings.Count(strings.Join(toks, " "), "s")))+":2010:"+vu.Hex(vals[keys[0]]))
	}
	return strings.Join(toks, " ")
}

// directed: a child trie with several keys (a branch root over leaves), optional WriteDirty, Snapshot
// (and a snapshot of the snapshot), then child-trie operations on a snapshot that touch EXISTING
// nodes of the child trie: overwrite, delete, re-put after a version upgrade, new key below the root.
func c03ChildDirected(r *vu.RNG) string {
	var toks []string
	c := []string{"aa", "bb"}[r.Intn(2)]
	al := c03ChildAlphabet[c]
	base := [][]byte{{al[0]}, {al[0], al[1]}, {al[1], al[0]}, {al[1]}, {al[0], al[0]}}
	n := 2 + r.Intn(len(base)-1)
	vals := map[string][]byte{}
	var keys []string
	for q := 0; q < n; q++ {
		v := c03Val(r)
		vals[string(base[q])] = v
		keys = append(keys, string(base[q]))
		toks = append(toks, "P0:"+c+":"+vu.Hex(base[q])+":"+vu.Hex(v))
	}
	if r.Chance(1, 3) {
		toks = append(toks, "p0:12:"+vu.Hex(c03Val(r)))
	}
	if r.Chance(1, 2) {
		toks = append(toks, "w0")
	}
	toks = append(toks, "s0")
	who := 1
	if r.Chance(1, 3) {
		toks = append(toks, "s0")
		who = 1 + r.Intn(2)
	} else if r.Chance(1, 3) {
		toks = append(toks, "s1")
		who = 2
	}
	x := vu.X(uint64(who))
	if r.Chance(1, 3) {
		toks = append(toks, "v"+x+":1")
	}
	for q := 0; q < 1+r.Intn(4); q++ {
		k := keys[r.Intn(len(keys))]
		switch r.Intn(5) {
		case 0:
			toks = append(toks, "E"+x+":"+c+":"+vu.Hex([]byte(k)))
		case 1:
			toks = append(toks, "P"+x+":"+c+":"+vu.Hex([]byte(k))+":"+vu.Hex(vals[k]))
		case 2:
			toks = append(toks, "P"+x+":"+c+":"+vu.Hex(append([]byte(k), al[r.Intn(2)]))+":"+vu.Hex(c03Val(r)))
		case 3:
			toks = append(toks, "w"+x)
		default:
			toks = append(toks, "P"+x+":"+c+":"+vu.Hex([]byte(k))+":"+vu.Hex(c03Val(r)))
		}
	}
	return strings.Join(toks, " ")
}

// directed: a trie of nested keys (branches below branches, branch values, odd and even depths) is
// built on handle 0 and snapshotted; every mutating operation is then aimed at EXISTING, shared nodes
// of a snapshot: same-value / new-value / extending / shortening Puts, Deletes of present keys and of
// proper prefixes of keys, ClearPrefix and ClearPrefixLimit with prefixes of present keys (a prefix
// ending in a zero low nibble is trimmed by the code to an odd number of nibbles: the model trims too).
var c03Nested = []string{"12", "1201", "1212", "121f", "121f01", "1f", "1f10", "1f12", "20", "2012", "f0", "f0f0", ""}

func c03Shared(r *vu.RNG) string {
	var toks []string
	kv := map[string][]byte{}
	if r.Chance(1, 5) {
		toks = append(toks, "v0:1")
	}
	n := 3 + r.Intn(7)
	for q := 0; q < n; q++ {
		k := vu.UnHex(c03Nested[r.Intn(len(c03Nested))])
		v := c03Val(r)
		kv[string(k)] = v
		toks = append(toks, "p0:"+vu.Hex(k)+":"+vu.Hex(v))
	}
	if r.Chance(1, 2) {
		toks = append(toks, "w0")
	}
	type gh struct {
		kv     map[string][]byte
		frozen bool
	}
	hs := []*gh{{kv: kv}}
	snap := func(j int) {
		m := map[string][]byte{}
		for a, b := range hs[j].kv {
			m[a] = b
		}
		hs[j].frozen = true
		hs = append(hs, &gh{kv: m})
		toks = append(toks, "s"+vu.X(uint64(j)))
	}
	snap(0)
	if r.Chance(1, 3) {
		snap(r.Intn(2))
	}
	rounds := 1 + r.Intn(2)
	for round := 0; round < rounds; round++ {
		var open []int
		for i, h := range hs {
			if !h.frozen {
				open = append(open, i)
			}
		}
		i := open[r.Intn(len(open))]
		h := hs[i]
		x := vu.X(uint64(i))
		if r.Chance(1, 4) {
			toks = append(toks, "v"+x+":1")
		}
		for q := 0; q < 1+r.Intn(4); q++ {
			var keys []string
			for a := range h.kv {
				keys = append(keys, a)
			}
			sort.Strings(keys)
			if len(keys) == 0 {
				keys = []string{"\x12"}
			}
			k := []byte(keys[r.Intn(len(keys))])
			pre := k
			if len(k) > 0 && r.Chance(1, 2) {
				pre = k[:len(k)-1]
			}
			if r.Chance(1, 6) {
				pre = []byte{[]byte{0x10, 0x20, 0xf0, 0x12, 0x1f}[r.Intn(5)]}
			}
			switch r.Intn(9) {
			case 0:
				toks = append(toks, "p"+x+":"+vu.Hex(k)+":"+vu.Hex(h.kv[string(k)]))
			case 1:
				v := c03Val(r)
				h.kv[string(k)] = v
				toks = append(toks, "p"+x+":"+vu.Hex(k)+":"+vu.Hex(v))
			case 2:
				nk := append(append([]byte{}, k...), c03KeyBytes[r.Intn(len(c03KeyBytes))])
				v := c03Val(r)
				h.kv[string(nk)] = v
				toks = append(toks, "p"+x+":"+vu.Hex(nk)+":"+vu.Hex(v))
			case 3:
				v := c03Val(r)
				h.kv[string(pre)] = v
				toks = append(toks, "p"+x+":"+vu.Hex(pre)+":"+vu.Hex(v))
			case 4:
				delete(h.kv, string(k))
				toks = append(toks, "d"+x+":"+vu.Hex(k))
			case 5:
				delete(h.kv, string(pre))
				toks = append(toks, "d"+x+":"+vu.Hex(pre))
			case 6, 7:
				for a := range h.kv {
					if strings.HasPrefix(a, string(pre)) {
						delete(h.kv, a)
					}
				}
				toks = append(toks, "c"+x+":"+vu.Hex(pre))
			default:
				limit := []int{1, 1, 2, 3, 100}[r.Intn(5)]
				var ks []string
				for a := range h.kv {
					if strings.HasPrefix(a, string(pre)) {
						ks = append(ks, a)
					}
				}
				sort.Strings(ks)
				for z, a := range ks {
					if z < limit {
						delete(h.kv, a)
					}
				}
				toks = append(toks, "l"+x+":"+vu.Hex(pre)+":"+vu.X(uint64(limit)))
			}
		}
		if r.Chance(1, 3) {
			toks = append(toks, "w"+x)
		}
		if round+1 < rounds && len(hs) < 5 {
			snap(i)
		}
	}
	return strings.Join(toks, " ")
}

func c03Gen(r *vu.RNG, n int, emit func(string)) {
	for i := 0; i < n; i++ {
		switch x := r.Intn(20); {
		case x < 3:
			emit(c03Upgrade(r))
		case x < 5:
			emit(c03History(r, 4+r.Intn(10), true, false))
		case x < 7: // child tries
			emit(c03History(r, 5+r.Intn(12), false, true))
		case x < 9:
			emit(c03ChildDirected(r))
		case x < 13:
			emit(c03Shared(r))
		default:
			emit(c03History(r, 4+r.Intn(14), false, false))
		}
	}
}


var c03sDB database.Database

func c03sProbe() string {
	d, g := "0", "0"
	t := inmemory_trie.NewEmptyTrie()
	_ = t.Put([]byte{0x01, 0x23}, []byte{1})
	_ = t.Put([]byte{0x04, 0x56}, []byte{2})
	_ = t.Delete([]byte{0x01})
	if t.Get([]byte{0x01, 0x23}) != nil {
		d = "1"
	}
	u := inmemory_trie.NewEmptyTrie()
	_ = u.Put([]byte{0x01, 0x23, 0x45}, []byte{1})
	_ = u.Put([]byte{0x01, 0x23, 0x67}, []byte{2})
	_ = u.Put([]byte{0x04, 0x56}, []byte{3})
	_ = u.Put([]byte{0x01, 0x23}, []byte{4})
	if u.Get([]byte{0x01}) == nil {
		g = "1"
	}
	return "probe:" + d + g
}

func c03sObserve(ts *storage.TrieState) (obs string, panicked bool) {
	defer func() {
		if r := recover(); r != nil {
			obs, panicked = "panic", true
		}
	}()
	tr := ts.Trie().(*inmemory_trie.InMemoryTrie)
	h, err := tr.Hash()
	if err != nil {
		return "err", false
	}
	ent := tr.Entries()
	keys := make([]string, 0, len(ent))
	for k := range ent {
		keys = append(keys, k)
	}
	sort.Strings(keys)
	var sb strings.Builder
	sb.WriteString(vu.Hex(h[:]))
	sb.WriteByte('#')
	if len(keys) == 0 {
		sb.WriteByte('.')
	}
	for i, k := range keys {
		if i > 0 {
			sb.WriteByte(',')
		}
		sb.WriteString(vu.Hex([]byte(k)))
		sb.WriteByte(':')
		sb.WriteString(vu.Hex(ent[k]))
	}
	return sb.String(), false
}

type c03sCase struct {
	s      *InmemoryStorageState
	hs     []*storage.TrieState
	stored map[int]common.Hash
	roots  []common.Hash // distinct stored roots, in order of first store
}

func (c *c03sCase) step(tok string) (res string) {
	defer func() {
		if r := recover(); r != nil {
			res = "panic"
		}
	}()
	f := strings.Split(tok[1:], ":")
	k := int(vu.UnX(f[0]))
	if k >= len(c.hs) {
		return "bad"
	}
	ts := c.hs[k]
	switch tok[0] {
	case 'p':
		if err := ts.Put(vu.UnHex(f[1]), vu.UnHex(f[2])); err != nil {
			return "err"
		}
	case 'd':
		if err := ts.Delete(vu.UnHex(f[1])); err != nil {
			return "err"
		}
	case 'c':
		if err := ts.ClearPrefix(vu.UnHex(f[1])); err != nil {
			return "err"
		}
	case 'v':
		if f[1] == "1" {
			ts.SetVersion(trie.V1)
		} else {
			ts.SetVersion(trie.V0)
		}
	case 'S':
		root := ts.Trie().MustHash()
		if err := c.s.StoreTrie(ts, nil); err != nil {
			return "err"
		}
		c.stored[k] = root
		seen := false
		for _, r := range c.roots {
			seen = seen || r == root
		}
		if !seen {
			c.roots = append(c.roots, root)
		}
	case 'R':
		s, err := NewStorageState(c03sDB, nil, NewTries())
		if err != nil {
			return "err"
		}
		c.s = s
	case 'X':
		root, ok := c.stored[k]
		if !ok {
			return "bad"
		}
		c.s.tries.delete(root)
	case 'T':
		root, ok := c.stored[k]
		if !ok {
			return "bad"
		}
		nts, err := c.s.TrieState(&root)
		if err != nil {
			return "err"
		}
		c.hs = append(c.hs, nts)
	default:
		return "bad"
	}
	return "ok"
}

func c03sRun(in string) string {
	toks := strings.Split(in, " ")
	if len(toks) == 0 || toks[0] != "state" {
		return "bad"
	}
	toks = toks[1:]
	s, err := NewStorageState(c03sDB, nil, NewTries())
	if err != nil {
		return "err"
	}
	c := &c03sCase{s: s, hs: []*storage.TrieState{storage.NewTrieState(inmemory_trie.NewEmptyTrie())},
		stored: map[int]common.Hash{}}
	var prev []string
	var prevR []string
	var out strings.Builder
	out.WriteString(c03sProbe() + " ")
	record := func(res string) bool {
		out.WriteString(res)
		defer func() {
			out.WriteString("/@")
			for j, root := range c.roots {
				if j >= len(prevR) {
					prevR = append(prevR, "")
				}
				t := c.s.tries.get(root)
				if t == nil {
					out.WriteString("/-")
					continue
				}
				o, p := c03sObserve(storage.NewTrieState(t))
				if p {
					o = "panic"
				}
				if prevR[j] == o {
					out.WriteString("/=")
				} else {
					out.WriteString("/" + o)
				}
				prevR[j] = o
			}
		}()
		for j, t := range c.hs {
			o, p := c03sObserve(t)
			if p {
				out.WriteString("/panic")
				return false
			}
			if j < len(prev) && prev[j] == o {
				out.WriteString("/=")
			} else {
				out.WriteString("/" + o)
			}
			if j < len(prev) {
				prev[j] = o
			} else {
				prev = append(prev, o)
			}
		}
		return true
	}
	if !record("init") {
		return out.String()
	}
	for _, tok := range toks {
		if tok == "" {
			continue
		}
		res := c.step(tok)
		out.WriteByte(' ')
		if res != "ok" {
			out.WriteString(res)
			break
		}
		if !record(res) {
			break
		}
	}
	return out.String()
}

// ---- generator: blocks built on stored states, forks included
var c03sKeyBytes = []byte{0x01, 0x10, 0x12, 0x1f, 0x20, 0xf0}

func c03sGen(r *vu.RNG, n int, emit func(string)) {
	for q := 0; q < n; q++ {
		toks := []string{"state"}
		nh := 1
		stored := map[int]bool{}
		kv := []map[string][]byte{{}}
		pickOpen := func() int { // a handle not stored yet (stored ones are left alone)
			var c []int
			for i := 0; i < nh; i++ {
				if !stored[i] {
					c = append(c, i)
				}
			}
			if len(c) == 0 {
				return -1
			}
			return c[r.Intn(len(c))]
		}
		steps := 5 + r.Intn(14)
		forceT := false
		for s := 0; s < steps; s++ {
			x := r.Intn(100)
			if forceT {
				x = 0
				forceT = false
			}
			switch {
			case x >= 94 && len(stored) > 0: // the in-memory tries are dropped (restart / pruning): the next
				// TrieState(root) rebuilds the trie from the database
				if x < 98 {
					toks = append(toks, "R0")
				} else {
					var c []int
					for i := range stored {
						c = append(c, i)
					}
					sort.Ints(c)
					toks = append(toks, "X"+vu.X(uint64(c[r.Intn(len(c))])))
				}
				forceT = r.Intn(4) > 0
			case x < 20 && len(stored) > 0 && nh < 7: // a new block on top of a stored state
				var c []int
				for i := range stored {
					c = append(c, i)
				}
				sort.Ints(c)
				k := c[r.Intn(len(c))]
				toks = append(toks, "T"+vu.X(uint64(k)))
				m := map[string][]byte{}
				for a, b := range kv[k] {
					m[a] = b
				}
				kv = append(kv, m)
				nh++
			case x < 38:
				i := pickOpen()
				if i < 0 {
					continue
				}
				toks = append(toks, "S"+vu.X(uint64(i)))
				stored[i] = true
			case x < 46:
				i := pickOpen()
				if i < 0 {
					continue
				}
				toks = append(toks, "v"+vu.X(uint64(i))+":1")
			default:
				i := pickOpen()
				if i < 0 {
					continue
				}
				var keys []string
				for a := range kv[i] {
					keys = append(keys, a)
				}
				sort.Strings(keys)
				switch y := r.Intn(10); {
				case y < 1 && len(keys) > 0: // ClearPrefix through the TrieState (the empty prefix is refused: it
					// covers the child storage keys)
					k := []byte(keys[r.Intn(len(keys))])
					if len(k) > 0 && r.Chance(1, 2) {
						k = k[:len(k)-1]
					}
					if len(k) > 0 {
						for a := range kv[i] {
							if strings.HasPrefix(a, string(k)) {
								delete(kv[i], a)
							}
						}
					}
					toks = append(toks, "c"+vu.X(uint64(i))+":"+vu.Hex(k))
				case y < 2 && len(keys) > 0:
					k := keys[r.Intn(len(keys))]
					delete(kv[i], k)
					toks = append(toks, "d"+vu.X(uint64(i))+":"+vu.Hex([]byte(k)))
				case y < 5 && len(keys) > 0: // re-put the same value (after a version change this is the C03 defect)
					k := keys[r.Intn(len(keys))]
					toks = append(toks, "p"+vu.X(uint64(i))+":"+vu.Hex([]byte(k))+":"+vu.Hex(kv[i][k]))
				default:
					kl := r.Intn(3)
					k := make([]byte, kl)
					for z := range k {
						k[z] = c03sKeyBytes[r.Intn(len(c03sKeyBytes))]
					}
					vl := []int{1, 31, 32, 33, 40, 40}[r.Intn(6)]
					v := make([]byte, vl)
					for z := range v {
						v[z] = byte(0xd0 + r.Intn(2))
					}
					kv[i][string(k)] = v
					toks = append(toks, "p"+vu.X(uint64(i))+":"+vu.Hex(k)+":"+vu.Hex(v))
				}
			}
		}
		emit(strings.Join(toks, " "))
	}
}

// exhaustive small scope (thorough tier): after Put(0x12, 40 bytes) on handle 0, every history of
// at most 4 further steps over at most 3 handles that respects the copy-on-write contract
func c03Exhaustive(emit func(string)) {
	a40 := strings.Repeat("b0", 40)
	type hs struct{ frozen bool }
	var rec func(toks []string, handles []hs, depth int)
	rec = func(toks []string, handles []hs, depth int) {
		if depth > 0 {
			emit(strings.Join(toks, " "))
		}
		if depth == 4 {
			return
		}
		for i, h := range handles {
			x := vu.X(uint64(i))
			var ops []string
			if !h.frozen {
				ops = append(ops, "p"+x+":12:"+a40, "p"+x+":12:01", "p"+x+":1234:"+a40, "d"+x+":12", "c"+x+":12")
			}
			ops = append(ops, "v"+x+":1", "w"+x)
			for _, o := range ops {
				rec(append(append([]string{}, toks...), o), handles, depth+1)
			}
			if len(handles) < 3 {
				nh := append([]hs{}, handles...)
				nh[i].frozen = true
				nh = append(nh, hs{})
				rec(append(append([]string{}, toks...), "s"+x), nh, depth+1)
			}
		}
	}
	rec([]string{"p0:12:" + a40}, []hs{{}}, 0)
}

// ---- `cstate`: child tries through TrieState / StoreTrie / TrieState(root) / reload
func c03csRun(in string) string {
	toks := strings.Split(in, " ")[1:]
	s, err := NewStorageState(c03sDB, nil, NewTries())
	if err != nil {
		return "err"
	}
	hs := []*storage.TrieState{storage.NewTrieState(inmemory_trie.NewEmptyTrie())}
	stored := map[int]common.Hash{}
	var prev []string
	var out strings.Builder
	out.WriteString(c03sProbe() + " ")
	record := func(res string) bool {
		out.WriteString(res)
		for j, ts := range hs {
			o, p := c03ObserveAll(ts.Trie().(*inmemory_trie.InMemoryTrie), true)
			if p {
				out.WriteString("/panic")
				return false
			}
			if j < len(prev) && prev[j] == o {
				out.WriteString("/=")
			} else {
				out.WriteString("/" + o)
			}
			if j < len(prev) {
				prev[j] = o
			} else {
				prev = append(prev, o)
			}
		}
		return true
	}
	step := func(tok string) (res string) {
		defer func() {
			if r := recover(); r != nil {
				res = "panic"
			}
		}()
		f := strings.Split(tok[1:], ":")
		k := int(vu.UnX(f[0]))
		if k >= len(hs) {
			return "bad"
		}
		ts := hs[k]
		switch tok[0] {
		case 'p':
			if err := ts.Put(vu.UnHex(f[1]), vu.UnHex(f[2])); err != nil {
				return "err"
			}
		case 'd':
			if err := ts.Delete(vu.UnHex(f[1])); err != nil {
				return "err"
			}
		case 'c':
			if err := ts.ClearPrefix(vu.UnHex(f[1])); err != nil {
				return "err"
			}
		case 'v':
			if f[1] == "1" {
				ts.SetVersion(trie.V1)
			} else {
				ts.SetVersion(trie.V0)
			}
		case 'P':
			if err := ts.SetChildStorage(vu.UnHex(f[1]), vu.UnHex(f[2]), vu.UnHex(f[3])); err != nil {
				return "err"
			}
		case 'E':
			if err := ts.ClearChildStorage(vu.UnHex(f[1]), vu.UnHex(f[2])); err != nil {
				return "ok:nochild"
			}
		case 'K':
			if err := ts.DeleteChild(vu.UnHex(f[1])); err != nil {
				return "err"
			}
		case 'S':
			root := ts.Trie().MustHash()
			if err := s.StoreTrie(ts, nil); err != nil {
				return "err"
			}
			stored[k] = root
		case 'R':
			ns, err := NewStorageState(c03sDB, nil, NewTries())
			if err != nil {
				return "err"
			}
			s = ns
		case 'T':
			root, ok := stored[k]
			if !ok {
				return "bad"
			}
			nts, err := s.TrieState(&root)
			if err != nil {
				return "err"
			}
			hs = append(hs, nts)
		default:
			return "bad"
		}
		return "ok"
	}
	if !record("init") {
		return out.String()
	}
	for _, tok := range toks {
		if tok == "" {
			continue
		}
		res := step(tok)
		out.WriteByte(' ')
		if res == "panic" || res == "bad" || res == "err" {
			out.WriteString(res)
			break
		}
		if !record(res) {
			break
		}
	}
	return out.String()
}

// blocks with child storage: a state with child tries is stored, optionally the node restarts,
// a new block starts from TrieState(root) and writes into the child tries
func c03csGen(r *vu.RNG, n int, emit func(string)) {
	for q := 0; q < n; q++ {
		toks := []string{"cstate"}
		nh := 1
		hsG := []*c03GenHandle{{kv: map[string][]byte{}}}
		stored := map[int]bool{}
		if r.Chance(1, 4) {
			toks = append(toks, "v0:1")
		}
		open := 0
		steps := 6 + r.Intn(12)
		for s := 0; s < steps; s++ {
			h := hsG[open]
			switch x := r.Intn(100); {
			case x < 45:
				toks = append(toks, c03ChildOp(r, open, h))
			case x < 60:
				k := c03Key(r)
				v := c03Val(r)
				h.kv[string(k)] = v
				toks = append(toks, "p"+vu.X(uint64(open))+":"+vu.Hex(k)+":"+vu.Hex(v))
			case x < 66:
				toks = append(toks, "v"+vu.X(uint64(open))+":1")
			default: // store, maybe restart, new block on a stored state
				if nh >= 6 {
					continue
				}
				toks = append(toks, "S"+vu.X(uint64(open)))
				stored[open] = true
				if r.Chance(1, 3) {
					toks = append(toks, "R0")
				}
				var c []int
				for i := range stored {
					c = append(c, i)
				}
				sort.Ints(c)
				src := c[r.Intn(len(c))]
				if r.Chance(2, 3) {
					src = open
				}
				toks = append(toks, "T"+vu.X(uint64(src)))
				nhd := &c03GenHandle{kv: map[string][]byte{}}
				for a, b := range hsG[src].kv {
					nhd.kv[a] = b
				}
				for c2, ckv := range hsG[src].kids {
					if nhd.kids == nil {
						nhd.kids = map[string]map[string][]byte{}
					}
					m := map[string][]byte{}
					for a, b := range ckv {
						m[a] = b
					}
					nhd.kids[c2] = m
				}
				hsG = append(hsG, nhd)
				open = nh
				nh++
			}
		}
		emit(strings.Join(toks, " "))
	}
}

func c03AllGen(r *vu.RNG, n int, emit func(string)) {
	if vu.Thorough() {
		c03Exhaustive(emit)
	}
	ns := n / 5
	nc := n / 12
	c03Gen(r.Fork(), n-ns-nc, emit)
	c03sGen(r.Fork(), ns, emit)
	c03csGen(r.Fork(), nc, emit)
}

func c03AllRun(in string) string {
	if strings.HasPrefix(in, "cstate") {
		return c03csRun(in)
	}
	if strings.HasPrefix(in, "state") {
		return c03sRun(in)
	}
	return c03Run(in)
}

func TestVerifC03(t *testing.T) {
	c03sDB = NewInMemoryDB(t)
	vu.Run(t, "C03", 1000, c03AllGen, c03AllRun)
	_ = fmt.Sprint
}
