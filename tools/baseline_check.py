#!/usr/bin/env python3
"""Compare a `go test -json` log with /root/.vp/BASELINE.json stable_pass.
usage: baseline_check.py <gotest.json> [more.json ...]"""
import json, sys
base = json.load(open('/root/.vp/BASELINE.json'))
stable = set(base['stable_pass'])
res = {}
for p in sys.argv[1:]:
    for l in open(p, errors='replace'):
        try: e = json.loads(l)
        except Exception: continue
        if e.get('Test') and e.get('Action') in ('pass', 'fail', 'skip'):
            res[e['Package'] + '::' + e['Test']] = e['Action']
missing = [t for t in stable if res.get(t) != 'pass']
print("stable_pass=%d passed_now=%d not_passing=%d" % (len(stable), len(stable) - len(missing), len(missing)))
for t in sorted(missing)[:60]:
    print("  ", t, res.get(t))
sys.exit(1 if missing else 0)
