// gosrc: the small translator of /verif. Reads Go source of the repository with go/parser and
// emits a Coq file with (a) integer constants evaluated from their constant expressions and
// (b) the lock discipline of the methods of a type (first mutex call and whether it is released
// by defer). Regenerated on every check run, so a changed constant or lock mode changes Gen.v and
// breaks the proof obligations that mention it.
package main

import (
	"encoding/json"
	"flag"
	"fmt"
	"go/ast"
	"go/parser"
	"go/token"
	"math/big"
	"os"
	"path/filepath"
	"sort"
	"strings"
)

type constReq struct {
	Name  string `json:"name"`
	File  string `json:"file"`
	Ident string `json:"ident"`
}
type lockReq struct {
	Name string `json:"name"`
	File string `json:"file"`
	Type string `json:"type"`
}
type config struct {
	Consts []constReq `json:"consts"`
	Locks  []lockReq  `json:"locks"`
}

type pkgConsts struct {
	exprs map[string]ast.Expr
	iota  map[string]int
}

func loadPkg(dir string) (*pkgConsts, error) {
	fset := token.NewFileSet()
	pc := &pkgConsts{exprs: map[string]ast.Expr{}, iota: map[string]int{}}
	ents, err := os.ReadDir(dir)
	if err != nil {
		return nil, err
	}
	for _, e := range ents {
		if !strings.HasSuffix(e.Name(), ".go") || strings.HasSuffix(e.Name(), "_test.go") {
			continue
		}
		f, err := parser.ParseFile(fset, filepath.Join(dir, e.Name()), nil, 0)
		if err != nil {
			return nil, err
		}
		for _, d := range f.Decls {
			gd, ok := d.(*ast.GenDecl)
			if !ok || (gd.Tok != token.CONST && gd.Tok != token.VAR) {
				continue
			}
			var last []ast.Expr
			for i, s := range gd.Specs {
				vs := s.(*ast.ValueSpec)
				vals := vs.Values
				if len(vals) == 0 && gd.Tok == token.CONST {
					vals = last
				} else {
					last = vals
				}
				for j, n := range vs.Names {
					if j < len(vals) {
						pc.exprs[n.Name] = vals[j]
						pc.iota[n.Name] = i
					}
				}
			}
		}
	}
	return pc, nil
}

// unsignedConvBits: the width of the unsigned integer type e is converted to (uint16(0) -> 16),
// 0 when e is not such a conversion.
func unsignedConvBits(e ast.Expr) int {
	for {
		p, ok := e.(*ast.ParenExpr)
		if !ok {
			break
		}
		e = p.X
	}
	ce, ok := e.(*ast.CallExpr)
	if !ok || len(ce.Args) != 1 {
		return 0
	}
	id, ok := ce.Fun.(*ast.Ident)
	if !ok {
		return 0
	}
	switch id.Name {
	case "uint8", "byte":
		return 8
	case "uint16":
		return 16
	case "uint32":
		return 32
	case "uint64", "uint", "uintptr":
		return 64
	}
	return 0
}

func (pc *pkgConsts) eval(e ast.Expr, iota int, depth int) (*big.Int, error) {
	if depth > 50 {
		return nil, fmt.Errorf("too deep")
	}
	switch x := e.(type) {
	case *ast.BasicLit:
		if x.Kind == token.INT || x.Kind == token.CHAR {
			if x.Kind == token.CHAR {
				r := []rune(strings.Trim(x.Value, "'"))
				return big.NewInt(int64(r[0])), nil
			}
			v, ok := new(big.Int).SetString(strings.ReplaceAll(x.Value, "_", ""), 0)
			if !ok {
				return nil, fmt.Errorf("bad int %s", x.Value)
			}
			return v, nil
		}
		return nil, fmt.Errorf("unsupported literal %s", x.Value)
	case *ast.ParenExpr:
		return pc.eval(x.X, iota, depth+1)
	case *ast.Ident:
		if x.Name == "iota" {
			return big.NewInt(int64(iota)), nil
		}
		if ex, ok := pc.exprs[x.Name]; ok {
			return pc.eval(ex, pc.iota[x.Name], depth+1)
		}
		return nil, fmt.Errorf("unknown identifier %s", x.Name)
	case *ast.UnaryExpr:
		v, err := pc.eval(x.X, iota, depth+1)
		if err != nil {
			return nil, err
		}
		switch x.Op {
		case token.SUB:
			return new(big.Int).Neg(v), nil
		case token.ADD:
			return v, nil
		case token.XOR:
			// bitwise complement: of an unsigned conversion (^uint16(0)) within that width,
			// otherwise (untyped / signed operand) -x-1
			if bits := unsignedConvBits(x.X); bits > 0 {
				mask := new(big.Int).Sub(new(big.Int).Lsh(big.NewInt(1), uint(bits)), big.NewInt(1))
				return new(big.Int).Xor(new(big.Int).And(v, mask), mask), nil
			}
			return new(big.Int).Not(v), nil
		}
		return nil, fmt.Errorf("unsupported unary %s", x.Op)
	case *ast.CallExpr: // conversions such as uint32(1000), int64(x)
		if len(x.Args) == 1 {
			if id, ok := x.Fun.(*ast.Ident); ok {
				switch id.Name {
				case "int", "int8", "int16", "int32", "int64", "uint", "uint8", "uint16", "uint32", "uint64", "byte", "uintptr":
					return pc.eval(x.Args[0], iota, depth+1)
				}
			}
			if sel, ok := x.Fun.(*ast.SelectorExpr); ok { // e.g. types.Something(5): keep the number
				_ = sel
				return pc.eval(x.Args[0], iota, depth+1)
			}
		}
		return nil, fmt.Errorf("unsupported call")
	case *ast.BinaryExpr:
		a, err := pc.eval(x.X, iota, depth+1)
		if err != nil {
			return nil, err
		}
		b, err := pc.eval(x.Y, iota, depth+1)
		if err != nil {
			return nil, err
		}
		r := new(big.Int)
		switch x.Op {
		case token.ADD:
			return r.Add(a, b), nil
		case token.SUB:
			return r.Sub(a, b), nil
		case token.MUL:
			return r.Mul(a, b), nil
		case token.QUO:
			if b.Sign() == 0 {
				return nil, fmt.Errorf("division by zero")
			}
			return r.Quo(a, b), nil
		case token.REM:
			if b.Sign() == 0 {
				return nil, fmt.Errorf("division by zero")
			}
			return r.Rem(a, b), nil
		case token.SHL:
			return r.Lsh(a, uint(b.Uint64())), nil
		case token.SHR:
			return r.Rsh(a, uint(b.Uint64())), nil
		case token.AND:
			return r.And(a, b), nil
		case token.OR:
			return r.Or(a, b), nil
		case token.XOR:
			return r.Xor(a, b), nil
		}
		return nil, fmt.Errorf("unsupported binary %s", x.Op)
	}
	return nil, fmt.Errorf("unsupported expression %T", e)
}

type lockInfo struct {
	Method string
	Mode   string // LockExclusive | LockShared | LockNone
	Defer  bool
	// Shape: for a locking method, the body starts with `recv.Lock()` (or RLock) immediately
	// followed by `defer recv.Unlock()` (RUnlock) and contains no other lock call: the whole
	// method is one critical section. For a method that takes no lock: it does not touch a
	// field of the receiver (it only calls other methods).
	Shape bool
}

func isRecvCall(e ast.Expr, recv string, names ...string) bool {
	ce, ok := e.(*ast.CallExpr)
	if !ok {
		return false
	}
	sel, ok := ce.Fun.(*ast.SelectorExpr)
	if !ok {
		return false
	}
	id, ok := sel.X.(*ast.Ident)
	if !ok || id.Name != recv {
		return false
	}
	for _, n := range names {
		if sel.Sel.Name == n {
			return true
		}
	}
	return false
}

// recvFields collects the receiver fields written by a method: on the left of an assignment or
// ++/--, under &, or as the first argument of delete.
func recvWrites(fd *ast.FuncDecl, into map[string]bool) {
	if fd.Recv == nil || len(fd.Recv.List[0].Names) == 0 || fd.Body == nil {
		return
	}
	recv := fd.Recv.List[0].Names[0].Name
	mark := func(e ast.Expr) {
		ast.Inspect(e, func(n ast.Node) bool {
			if sel, ok := n.(*ast.SelectorExpr); ok {
				if id, ok := sel.X.(*ast.Ident); ok && id.Name == recv {
					into[sel.Sel.Name] = true
				}
			}
			return true
		})
	}
	ast.Inspect(fd.Body, func(n ast.Node) bool {
		switch x := n.(type) {
		case *ast.AssignStmt:
			for _, l := range x.Lhs {
				mark(l)
			}
		case *ast.IncDecStmt:
			mark(x.X)
		case *ast.UnaryExpr:
			if x.Op == token.AND {
				mark(x.X)
			}
		case *ast.CallExpr:
			if id, ok := x.Fun.(*ast.Ident); ok && id.Name == "delete" && len(x.Args) > 0 {
				mark(x.Args[0])
			}
		}
		return true
	})
}

func methodShape(fd *ast.FuncDecl, mode string, mutable map[string]bool) bool {
	recv := ""
	if len(fd.Recv.List[0].Names) > 0 {
		recv = fd.Recv.List[0].Names[0].Name
	}
	if recv == "" {
		return false
	}
	nLock := 0
	ast.Inspect(fd.Body, func(n ast.Node) bool {
		if ce, ok := n.(*ast.CallExpr); ok {
			if sel, ok := ce.Fun.(*ast.SelectorExpr); ok {
				switch sel.Sel.Name {
				case "Lock", "RLock", "Unlock", "RUnlock", "TryLock", "TryRLock":
					nLock++
				}
			}
		}
		return true
	})
	if mode == "LockNone" {
		if nLock != 0 {
			return false
		}
		// no field access through the receiver: every selector on the receiver is a call
		ok := true
		ast.Inspect(fd.Body, func(n ast.Node) bool {
			if ce, isCall := n.(*ast.CallExpr); isCall {
				if sel, isSel := ce.Fun.(*ast.SelectorExpr); isSel {
					if id, isId := sel.X.(*ast.Ident); isId && id.Name == recv {
						for _, a := range ce.Args {
							ast.Inspect(a, func(m ast.Node) bool {
								if s2, k := m.(*ast.SelectorExpr); k {
									if i2, k2 := s2.X.(*ast.Ident); k2 && i2.Name == recv && mutable[s2.Sel.Name] {
										ok = false
									}
								}
								return true
							})
						}
						return false // do not descend into the method selector itself
					}
				}
			}
			if sel, isSel := n.(*ast.SelectorExpr); isSel {
				if id, isId := sel.X.(*ast.Ident); isId && id.Name == recv && mutable[sel.Sel.Name] {
					// reads a field that some method writes, outside any lock
					ok = false
				}
			}
			return true
		})
		return ok
	}
	if len(fd.Body.List) < 2 || nLock != 2 {
		return false
	}
	es, ok := fd.Body.List[0].(*ast.ExprStmt)
	if !ok {
		return false
	}
	lock, unlock := "Lock", "Unlock"
	if mode == "LockShared" {
		lock, unlock = "RLock", "RUnlock"
	}
	if !isRecvCall(es.X, recv, lock) {
		return false
	}
	ds, ok := fd.Body.List[1].(*ast.DeferStmt)
	if !ok {
		return false
	}
	return isRecvCall(ds.Call, recv, unlock)
}

func lockDiscipline(file, typ string) ([]lockInfo, error) {
	fset := token.NewFileSet()
	f, err := parser.ParseFile(fset, file, nil, 0)
	if err != nil {
		return nil, err
	}
	var out []lockInfo
	recvType := func(fd *ast.FuncDecl) string {
		rt := fd.Recv.List[0].Type
		if st, ok := rt.(*ast.StarExpr); ok {
			rt = st.X
		}
		if ix, ok := rt.(*ast.IndexExpr); ok {
			rt = ix.X
		}
		if ix, ok := rt.(*ast.IndexListExpr); ok {
			rt = ix.X
		}
		if id, ok := rt.(*ast.Ident); ok {
			return id.Name
		}
		return ""
	}
	mutable := map[string]bool{}
	for _, d := range f.Decls {
		if fd, ok := d.(*ast.FuncDecl); ok && fd.Recv != nil && len(fd.Recv.List) > 0 && fd.Body != nil && recvType(fd) == typ {
			recvWrites(fd, mutable)
		}
	}
	for _, d := range f.Decls {
		fd, ok := d.(*ast.FuncDecl)
		if !ok || fd.Recv == nil || len(fd.Recv.List) == 0 || fd.Body == nil {
			continue
		}
		rt := fd.Recv.List[0].Type
		if st, ok := rt.(*ast.StarExpr); ok {
			rt = st.X
		}
		if ix, ok := rt.(*ast.IndexExpr); ok {
			rt = ix.X
		}
		if ix, ok := rt.(*ast.IndexListExpr); ok {
			rt = ix.X
		}
		id, ok := rt.(*ast.Ident)
		if !ok || id.Name != typ {
			continue
		}
		li := lockInfo{Method: fd.Name.Name, Mode: "LockNone"}
		first := token.Pos(0)
		ast.Inspect(fd.Body, func(n ast.Node) bool {
			ce, ok := n.(*ast.CallExpr)
			if !ok {
				return true
			}
			sel, ok := ce.Fun.(*ast.SelectorExpr)
			if !ok {
				return true
			}
			switch sel.Sel.Name {
			case "Lock", "RLock":
				if first == 0 || ce.Pos() < first {
					first = ce.Pos()
					if sel.Sel.Name == "Lock" {
						li.Mode = "LockExclusive"
					} else {
						li.Mode = "LockShared"
					}
				}
			}
			return true
		})
		ast.Inspect(fd.Body, func(n ast.Node) bool {
			ds, ok := n.(*ast.DeferStmt)
			if !ok {
				return true
			}
			if sel, ok := ds.Call.Fun.(*ast.SelectorExpr); ok {
				if sel.Sel.Name == "Unlock" || sel.Sel.Name == "RUnlock" {
					li.Defer = true
				}
			}
			return true
		})
		li.Shape = methodShape(fd, li.Mode, mutable)
		out = append(out, li)
	}
	sort.Slice(out, func(i, j int) bool { return out[i].Method < out[j].Method })
	return out, nil
}

func main() {
	repo := flag.String("repo", "/repo", "repository root")
	cfgp := flag.String("config", "", "consts.json")
	outp := flag.String("out", "", "output .v")
	flag.Parse()
	raw, err := os.ReadFile(*cfgp)
	if err != nil {
		fmt.Fprintln(os.Stderr, err)
		os.Exit(1)
	}
	var cfg config
	if err := json.Unmarshal(raw, &cfg); err != nil {
		fmt.Fprintln(os.Stderr, err)
		os.Exit(1)
	}
	var b strings.Builder
	b.WriteString("(* Generated by /verif/tools/gosrc from the Go source on every check run. Do not edit. *)\n")
	b.WriteString("From Coq Require Import ZArith String List.\nFrom Common Require Import Lock.\nImport ListNotations.\nLocal Open Scope Z_scope.\nLocal Open Scope string_scope.\n\n")
	pkgs := map[string]*pkgConsts{}
	for _, c := range cfg.Consts {
		dir := filepath.Dir(filepath.Join(*repo, c.File))
		pc, ok := pkgs[dir]
		if !ok {
			pc, err = loadPkg(dir)
			if err != nil {
				fmt.Fprintf(os.Stderr, "gosrc: %v\n", err)
				os.Exit(1)
			}
			pkgs[dir] = pc
		}
		ex, ok := pc.exprs[c.Ident]
		if !ok {
			fmt.Fprintf(os.Stderr, "gosrc: constant %s not found in %s\n", c.Ident, dir)
			os.Exit(1)
		}
		v, err := pc.eval(ex, pc.iota[c.Ident], 0)
		if err != nil {
			fmt.Fprintf(os.Stderr, "gosrc: %s: %v\n", c.Ident, err)
			os.Exit(1)
		}
		fmt.Fprintf(&b, "(* %s : %s *)\nDefinition %s : Z := (%s)%%Z.\n", c.File, c.Ident, c.Name, v.String())
	}
	for _, l := range cfg.Locks {
		infos, err := lockDiscipline(filepath.Join(*repo, l.File), l.Type)
		if err != nil {
			fmt.Fprintf(os.Stderr, "gosrc: %v\n", err)
			os.Exit(1)
		}
		fmt.Fprintf(&b, "(* %s : methods of %s *)\nDefinition %s_locks : list (string * lockmode * bool) :=\n  [", l.File, l.Type, l.Name)
		for i, li := range infos {
			if i > 0 {
				b.WriteString(";\n   ")
			}
			fmt.Fprintf(&b, "(\"%s\", %s, %v)", li.Method, li.Mode, li.Defer)
		}
		b.WriteString("].\n")
		fmt.Fprintf(&b, "(* one-critical-section shape of each method (see tools/gosrc methodShape) *)\nDefinition %s_shapes : list (string * bool) :=\n  [", l.Name)
		for i, li := range infos {
			if i > 0 {
				b.WriteString(";\n   ")
			}
			fmt.Fprintf(&b, "(\"%s\", %v)", li.Method, li.Shape)
		}
		b.WriteString("].\n")
	}
	if err := os.WriteFile(*outp, []byte(b.String()), 0o644); err != nil {
		fmt.Fprintln(os.Stderr, err)
		os.Exit(1)
	}
	fmt.Printf("gosrc: %d constants, %d lock tables -> %s\n", len(cfg.Consts), len(cfg.Locks), *outp)
}
