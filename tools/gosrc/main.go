// gosrc: the small translator of /verif. Reads Go source of the repository with go/parser and
// emits a Coq file with (a) integer constants evaluated from their constant expressions and
// (b) the lock discipline of the methods of a type (first mutex call and whether it is released
// by defer). Regenerated on every check run, so a changed constant or lock mode changes Gen.v and
// breaks the proof obligations that mention it.
package main

import (
	"encoding/json"
	"flag"
	"fmt"
	"go/ast"
	"go/parser"
	"go/token"
	"math/big"
	"os"
	"path/filepath"
	"sort"
	"strings"
)

type constReq struct {
	Name  string `json:"name"`
	File  string `json:"file"`
	Ident string `json:"ident"`
}
type lockReq struct {
	Name string `json:"name"`
	File string `json:"file"`
	Type string `json:"type"`
}
type config struct {
	Consts []constReq `json:"consts"`
	Locks  []lockReq  `json:"locks"`
}

type pkgConsts struct {
	exprs map[string]ast.Expr
	iota  map[string]int
}

func loadPkg(dir string) (*pkgConsts, error) {
	fset := token.NewFileSet()
	pc := &pkgConsts{exprs: map[string]ast.Expr{}, iota: map[string]int{}}
	ents, err := os.ReadDir(dir)
	if err != nil {
		return nil, err
	}
	for _, e := range ents {
		if !strings.HasSuffix(e.Name(), ".go") || strings.HasSuffix(e.Name(), "_test.go") {
			continue
		}
		f, err := parser.ParseFile(fset, filepath.Join(dir, e.Name()), nil, 0)
		if err != nil {
			return nil, err
		}
		for _, d := range f.Decls {
			gd, ok := d.(*ast.GenDecl)
			if !ok || (gd.Tok != token.CONST && gd.Tok != token.VAR) {
				continue
			}
			var last []ast.Expr
			for i, s := range gd.Specs {
				vs := s.(*ast.ValueSpec)
				vals := vs.Values
				if len(vals) == 0 && gd.Tok == token.CONST {
					vals = last
				} else {
					last = vals
				}
				for j, n := range vs.Names {
					if j < len(vals) {
						pc.exprs[n.Name] = vals[j]
						pc.iota[n.Name] = i
					}
				}
			}
		}
	}
	return pc, nil
}

func (pc *pkgConsts) eval(e ast.Expr, iota int, depth int) (*big.Int, error) {
	if depth > 50 {
		return nil, fmt.Errorf("too deep")
	}
	switch x := e.(type) {
	case *ast.BasicLit:
		if x.Kind == token.INT || x.Kind == token.CHAR {
			if x.Kind == token.CHAR {
				r := []rune(strings.Trim(x.Value, "'"))
				return big.NewInt(int64(r[0])), nil
			}
			v, ok := new(big.Int).SetString(strings.ReplaceAll(x.Value, "_", ""), 0)
			if !ok {
				return nil, fmt.Errorf("bad int %s", x.Value)
			}
			return v, nil
		}
		return nil, fmt.Errorf("unsupported literal %s", x.Value)
	case *ast.ParenExpr:
		return pc.eval(x.X, iota, depth+1)
	case *ast.Ident:
		if x.Name == "iota" {
			return big.NewInt(int64(iota)), nil
		}
		if ex, ok := pc.exprs[x.Name]; ok {
			return pc.eval(ex, pc.iota[x.Name], depth+1)
		}
		return nil, fmt.Errorf("unknown identifier %s", x.Name)
	case *ast.UnaryExpr:
		v, err := pc.eval(x.X, iota, depth+1)
		if err != nil {
			return nil, err
		}
		switch x.Op {
		case token.SUB:
			return new(big.Int).Neg(v), nil
		case token.ADD:
			return v, nil
		}
		return nil, fmt.Errorf("unsupported unary %s", x.Op)
	case *ast.CallExpr: // conversions such as uint32(1000), int64(x)
		if len(x.Args) == 1 {
			if id, ok := x.Fun.(*ast.Ident); ok {
				switch id.Name {
				case "int", "int8", "int16", "int32", "int64", "uint", "uint8", "uint16", "uint32", "uint64", "byte", "uintptr":
					return pc.eval(x.Args[0], iota, depth+1)
				}
			}
			if sel, ok := x.Fun.(*ast.SelectorExpr); ok { // e.g. types.Something(5): keep the number
				_ = sel
				return pc.eval(x.Args[0], iota, depth+1)
			}
		}
		return nil, fmt.Errorf("unsupported call")
	case *ast.BinaryExpr:
		a, err := pc.eval(x.X, iota, depth+1)
		if err != nil {
			return nil, err
		}
		b, err := pc.eval(x.Y, iota, depth+1)
		if err != nil {
			return nil, err
		}
		r := new(big.Int)
		switch x.Op {
		case token.ADD:
			return r.Add(a, b), nil
		case token.SUB:
			return r.Sub(a, b), nil
		case token.MUL:
			return r.Mul(a, b), nil
		case token.QUO:
			if b.Sign() == 0 {
				return nil, fmt.Errorf("division by zero")
			}
			return r.Quo(a, b), nil
		case token.REM:
			if b.Sign() == 0 {
				return nil, fmt.Errorf("division by zero")
			}
			return r.Rem(a, b), nil
		case token.SHL:
			return r.Lsh(a, uint(b.Uint64())), nil
		case token.SHR:
			return r.Rsh(a, uint(b.Uint64())), nil
		case token.AND:
			return r.And(a, b), nil
		case token.OR:
			return r.Or(a, b), nil
		case token.XOR:
			return r.Xor(a, b), nil
		}
		return nil, fmt.Errorf("unsupported binary %s", x.Op)
	}
	return nil, fmt.Errorf("unsupported expression %T", e)
}

type lockInfo struct {
	Method string
	Mode   string // LockExclusive | LockShared | LockNone
	Defer  bool
}

func lockDiscipline(file, typ string) ([]lockInfo, error) {
	fset := token.NewFileSet()
	f, err := parser.ParseFile(fset, file, nil, 0)
	if err != nil {
		return nil, err
	}
	var out []lockInfo
	for _, d := range f.Decls {
		fd, ok := d.(*ast.FuncDecl)
		if !ok || fd.Recv == nil || len(fd.Recv.List) == 0 || fd.Body == nil {
			continue
		}
		rt := fd.Recv.List[0].Type
		if st, ok := rt.(*ast.StarExpr); ok {
			rt = st.X
		}
		if ix, ok := rt.(*ast.IndexExpr); ok {
			rt = ix.X
		}
		if ix, ok := rt.(*ast.IndexListExpr); ok {
			rt = ix.X
		}
		id, ok := rt.(*ast.Ident)
		if !ok || id.Name != typ {
			continue
		}
		li := lockInfo{Method: fd.Name.Name, Mode: "LockNone"}
		first := token.Pos(0)
		ast.Inspect(fd.Body, func(n ast.Node) bool {
			ce, ok := n.(*ast.CallExpr)
			if !ok {
				return true
			}
			sel, ok := ce.Fun.(*ast.SelectorExpr)
			if !ok {
				return true
			}
			switch sel.Sel.Name {
			case "Lock", "RLock":
				if first == 0 || ce.Pos() < first {
					first = ce.Pos()
					if sel.Sel.Name == "Lock" {
						li.Mode = "LockExclusive"
					} else {
						li.Mode = "LockShared"
					}
				}
			}
			return true
		})
		ast.Inspect(fd.Body, func(n ast.Node) bool {
			ds, ok := n.(*ast.DeferStmt)
			if !ok {
				return true
			}
			if sel, ok := ds.Call.Fun.(*ast.SelectorExpr); ok {
				if sel.Sel.Name == "Unlock" || sel.Sel.Name == "RUnlock" {
					li.Defer = true
				}
			}
			return true
		})
		out = append(out, li)
	}
	sort.Slice(out, func(i, j int) bool { return out[i].Method < out[j].Method })
	return out, nil
}

func main() {
	repo := flag.String("repo", "/repo", "repository root")
	cfgp := flag.String("config", "", "consts.json")
	outp := flag.String("out", "", "output .v")
	flag.Parse()
	raw, err := os.ReadFile(*cfgp)
	if err != nil {
		fmt.Fprintln(os.Stderr, err)
		os.Exit(1)
	}
	var cfg config
	if err := json.Unmarshal(raw, &cfg); err != nil {
		fmt.Fprintln(os.Stderr, err)
		os.Exit(1)
	}
	var b strings.Builder
	b.WriteString("(* Generated by /verif/tools/gosrc from the Go source on every check run. Do not edit. *)\n")
	b.WriteString("From Coq Require Import ZArith String List.\nFrom Common Require Import Lock.\nImport ListNotations.\nLocal Open Scope Z_scope.\nLocal Open Scope string_scope.\n\n")
	pkgs := map[string]*pkgConsts{}
	for _, c := range cfg.Consts {
		dir := filepath.Dir(filepath.Join(*repo, c.File))
		pc, ok := pkgs[dir]
		if !ok {
			pc, err = loadPkg(dir)
			if err != nil {
				fmt.Fprintf(os.Stderr, "gosrc: %v\n", err)
				os.Exit(1)
			}
			pkgs[dir] = pc
		}
		ex, ok := pc.exprs[c.Ident]
		if !ok {
			fmt.Fprintf(os.Stderr, "gosrc: constant %s not found in %s\n", c.Ident, dir)
			os.Exit(1)
		}
		v, err := pc.eval(ex, pc.iota[c.Ident], 0)
		if err != nil {
			fmt.Fprintf(os.Stderr, "gosrc: %s: %v\n", c.Ident, err)
			os.Exit(1)
		}
		fmt.Fprintf(&b, "(* %s : %s *)\nDefinition %s : Z := (%s)%%Z.\n", c.File, c.Ident, c.Name, v.String())
	}
	for _, l := range cfg.Locks {
		infos, err := lockDiscipline(filepath.Join(*repo, l.File), l.Type)
		if err != nil {
			fmt.Fprintf(os.Stderr, "gosrc: %v\n", err)
			os.Exit(1)
		}
		fmt.Fprintf(&b, "(* %s : methods of %s *)\nDefinition %s_locks : list (string * lockmode * bool) :=\n  [", l.File, l.Type, l.Name)
		for i, li := range infos {
			if i > 0 {
				b.WriteString(";\n   ")
			}
			fmt.Fprintf(&b, "(\"%s\", %s, %v)", li.Method, li.Mode, li.Defer)
		}
		b.WriteString("].\n")
	}
	if err := os.WriteFile(*outp, []byte(b.String()), 0o644); err != nil {
		fmt.Fprintln(os.Stderr, err)
		os.Exit(1)
	}
	fmt.Printf("gosrc: %d constants, %d lock tables -> %s\n", len(cfg.Consts), len(cfg.Locks), *outp)
}
