#!/usr/bin/env python3
"""meta_note.py <Cxx> <level_text|level_note> <text> [--replace OLD]: append (or replace a fragment in) a prose field of props/Cxx/meta.json, keeping key order."""
import json, sys
pid, field, text = sys.argv[1:4]
p = '/verif/props/%s/meta.json' % pid
m = json.load(open(p))
if len(sys.argv) > 5 and sys.argv[4] == '--replace':
    old = sys.argv[5]
    assert m[field].count(old) == 1, 'fragment not found exactly once'
    m[field] = m[field].replace(old, text)
else:
    m[field] = m[field].rstrip() + ' ' + text
json.dump(m, open(p, 'w'), indent=1, ensure_ascii=False)
open(p, 'a').write('\n')
