(* vutil.ml — shared helpers for the per-property drivers.  Compiled after the extracted
   Model (monolithic extraction), whose datatypes positive / n / z / nat / byte it uses.
   Numbers travel as lower-case hex strings, byte strings as hex, on tab-separated lines. *)
open Model

let fail fmt = Printf.ksprintf (fun s -> prerr_endline ("driver: " ^ s); exit 2) fmt

(* ---- N <-> hex / int ---- *)
let hexval c = match c with
  | '0'..'9' -> Char.code c - 48
  | 'a'..'f' -> Char.code c - 87
  | 'A'..'F' -> Char.code c - 55
  | _ -> fail "bad hex digit %c" c

let n_of_hex (s : string) : n =
  (* MSB first: build positive *)
  let acc = ref None in
  String.iter (fun c ->
    let v = hexval c in
    for i = 3 downto 0 do
      let bit = (v lsr i) land 1 = 1 in
      acc := (match !acc with
        | None -> if bit then Some XH else None
        | Some p -> Some (if bit then XI p else XO p))
    done) s;
  match !acc with None -> N0 | Some p -> Npos p

let hex_of_n (x : n) : string =
  match x with
  | N0 -> "0"
  | Npos p ->
    (* collect bits LSB first *)
    let bits = ref [] in
    let rec go p = match p with
      | XH -> bits := true :: !bits
      | XO q -> bits := false :: !bits; go q
      | XI q -> bits := true :: !bits; go q in
    go p;
    (* !bits is MSB first *)
    let l = !bits in
    let len = List.length l in
    let padn = (4 - len mod 4) mod 4 in
    let l = (List.init padn (fun _ -> false)) @ l in
    let b = Buffer.create 16 in
    let rec emit = function
      | a :: b1 :: c :: d :: r ->
        let v = (if a then 8 else 0) + (if b1 then 4 else 0) + (if c then 2 else 0) + (if d then 1 else 0) in
        Buffer.add_char b "0123456789abcdef".[v]; emit r
      | [] -> ()
      | _ -> assert false in
    emit l; Buffer.contents b

let n_of_int (i : int) : n =
  if i < 0 then fail "n_of_int negative" else
  if i = 0 then N0 else
  let rec go i = if i = 1 then XH else if i land 1 = 1 then XI (go (i lsr 1)) else XO (go (i lsr 1)) in
  Npos (go i)

let int_of_n (x : n) : int =
  match x with
  | N0 -> 0
  | Npos p -> let rec go p = match p with XH -> 1 | XO q -> 2 * go q | XI q -> 2 * go q + 1 in go p

let rec nat_of_int (i : int) : nat = if i <= 0 then O else S (nat_of_int (i - 1))
let int_of_nat (x : nat) : int = let rec go acc = function O -> acc | S y -> go (acc + 1) y in go 0 x

let z_of_int (i : int) : z =
  if i = 0 then Z0 else if i > 0 then (match n_of_int i with Npos p -> Zpos p | N0 -> Z0)
  else (match n_of_int (- i) with Npos p -> Zneg p | N0 -> Z0)
let int_of_z (x : z) : int = match x with Z0 -> 0 | Zpos p -> int_of_n (Npos p) | Zneg p -> - (int_of_n (Npos p))
(* signed hex: optional leading '-' *)
let z_of_hex (s : string) : z =
  if String.length s > 0 && s.[0] = '-' then
    (match n_of_hex (String.sub s 1 (String.length s - 1)) with N0 -> Z0 | Npos p -> Zneg p)
  else (match n_of_hex s with N0 -> Z0 | Npos p -> Zpos p)
let hex_of_z (x : z) : string = match x with
  | Z0 -> "0" | Zpos p -> hex_of_n (Npos p) | Zneg p -> "-" ^ hex_of_n (Npos p)

(* ---- bytes ---- *)
let byte_table : byte array = Array.init 256 (fun i -> drv_n2b (n_of_int i))
let byte_of_int i = byte_table.(i land 255)
let int_of_byte (b : byte) : int = int_of_n (drv_b2n b)

(* "-" denotes the empty byte string (so that fields are never empty) *)
let bytes_of_hex (s : string) : byte list =
  if s = "-" || s = "" then [] else begin
    if String.length s mod 2 <> 0 then fail "odd hex %s" s;
    List.init (String.length s / 2) (fun i -> byte_of_int (16 * hexval s.[2*i] + hexval s.[2*i+1]))
  end
let hex_of_bytes (l : byte list) : string =
  if l = [] then "-" else begin
    let b = Buffer.create 64 in
    List.iter (fun x -> Buffer.add_string b (Printf.sprintf "%02x" (int_of_byte x))) l;
    Buffer.contents b
  end
let bytes_of_string (s : string) : byte list = List.init (String.length s) (fun i -> byte_of_int (Char.code s.[i]))
let string_of_bytes (l : byte list) : string =
  let b = Buffer.create 64 in List.iter (fun x -> Buffer.add_char b (Char.chr (int_of_byte x))) l; Buffer.contents b

(* ---- line protocol ----
   trace line:   <id> \t <input> \t <observed>
   result line:  R \t <id> \t <prop:0|1> \t <eq:0|1> \t <nontrivial:0|1> \t <finding-slug or -> \t <tags> \t <detail>
   [input] and [observed] are property-specific strings (fields separated by spaces). *)
type verdict = {
  prop_ok : bool;        (* the property predicate holds of the implementation's observables *)
  model_eq : bool;       (* the model's observables equal the implementation's *)
  nontrivial : bool;
  finding : string;      (* known-finding slug when prop_ok = false lies inside a guard, else "-" *)
  tags : string;         (* comma-separated coverage buckets *)
  detail : string;
}
let ok ?(nontrivial=true) ?(tags="") () =
  { prop_ok = true; model_eq = true; nontrivial; finding = "-"; tags; detail = "" }

let split_ws s = List.filter (fun x -> x <> "") (String.split_on_char ' ' s)

(* Gallina literals for the vm_compute cross-check (driver --coq mode) *)
let coq_n (x : n) : string = "(0x" ^ hex_of_n x ^ ")%N"
let coq_bytes (l : byte list) : string =
  "(map n2b [" ^ String.concat "; " (List.map (fun b -> string_of_int (int_of_byte b)) l) ^ "]%N)"

let run_driver ?(coq : (string -> string -> string option) option) (check : string -> string -> verdict) =
  if Array.length Sys.argv > 1 && Sys.argv.(1) = "--coq" then begin
    (* print one Gallina boolean term per case (cases the driver cannot render are skipped) *)
    (try
      while true do
        let line = input_line stdin in
        match String.split_on_char '\t' line with
        | [id; inp; obs] ->
          (match coq with
           | Some f -> (match f inp obs with
                        | Some t -> Printf.printf "(* %s *) (%s) ::\n" id t
                        | None -> ())
           | None -> ())
        | _ -> ()
      done
    with End_of_file -> ());
    flush stdout; exit 0
  end;
  (try
    while true do
      let line = input_line stdin in
      if line <> "" then begin
        match String.split_on_char '\t' line with
        | [id; inp; obs] ->
          let v = (try check inp obs with
                   | Stack_overflow -> { prop_ok = true; model_eq = false; nontrivial = false; finding = "-";
                                         tags = "driver-stack-overflow"; detail = "stack overflow in model" }) in
          Printf.printf "R\t%s\t%d\t%d\t%d\t%s\t%s\t%s\n" id
            (if v.prop_ok then 1 else 0) (if v.model_eq then 1 else 0)
            (if v.nontrivial then 1 else 0) v.finding
            (if v.tags = "" then "-" else v.tags)
            (if v.detail = "" then "-" else v.detail)
        | _ -> fail "malformed trace line: %s" line
      end
    done
  with End_of_file -> ());
  flush stdout
